#!/bin/sh
# Offline setup: parse every specification with SANY (fails loudly on a syntax error) and
# install the jsonschema wheel (cross-check only) into /verif/.deps.  Nothing is fetched.
set -e
cd "$(dirname "$0")"
d=$(mktemp -d /tmp/mverif-setup-XXXXXX)
trap 'rm -rf "$d"' EXIT
find spec -name '*.tla' -exec cp {} "$d"/ \;
for f in "$d"/*.tla; do
  m=$(basename "$f" .tla)
  (cd "$d" && java -cp /opt/veriftools/tla/tla2tools.jar:/opt/veriftools/tla/CommunityModules-deps.jar tla2sany.SANY "$m.tla" > "$m.sany.log" 2>&1) || { echo "SANY failed on $m"; tail -20 "$d/$m.sany.log"; exit 1; }
  if grep -q "Semantic errors\|Parse Error\|Fatal errors" "$d/$m.sany.log"; then echo "SANY errors in $m"; grep -A8 "rror" "$d/$m.sany.log" | head -30; exit 1; fi
done
if [ ! -d .deps/jsonschema ]; then
  /venv/bin/pip install -q --no-index --find-links /opt/veriftools/wheels --target .deps jsonschema >/dev/null 2>&1 || echo "note: jsonschema wheel not installed (cross-check disabled)"
fi
echo "setup ok: $(ls "$d"/*.tla | wc -l) modules parsed"
