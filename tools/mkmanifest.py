#!/usr/bin/env python3
"""Regenerates /verif/MANIFEST.json from the table below (single source of truth for the interface)."""
import json
import os

VERIF = os.path.dirname(os.path.dirname(os.path.abspath(__file__)))
props = [json.loads(l) for l in open(os.path.join(VERIF, "properties.jsonl"))]

CLAIMED = {
    "C01": dict(
        text="TLC proves RoundTrip == Unpack(T, Pack(T, v)) = Ok(v) on the reference semantics for every (type, sample value) of the bounded grammar "
             "(all leaves x all collection constructors, depth 1 in quick, depth 2 in thorough; mixin holder, plain-dataclass holder and bare codec for each type); "
             "every TLC state is replayed against the real library (decode(encode(v)) == v with exact concrete classes), and seeded random schemas "
             "to depth 4-5 are recorded and judged by TLC (CoreTrace). Exhaustive inside the bound, randomized outside it.",
        note="Trusted: TLC/SANY; spec/ref/{Pack,Unpack,Leaf}.tla as transcription of README/statement; harness/terms.py bridge; CPython stdlib as the leaf constructors (Ctor table). "
             "Lossy cases of the statement are excluded by a spec predicate (the reference's own round trip), not by Python filters.",
        tech="TLA+ reference semantics + TLC enumeration replayed into the code + TLC trace validation", ref="6 C01"),
    "C02": dict(
        text="Pack(T, cx, v) in TLA+ is REF_ENCODE; TLC checks IsBasic(Pack(..)) on the model, exports every state as a vector whose expected wire form "
             "the real to_dict / BasicEncoder output must equal (order-sensitive; set-derived lists as bags), json.dumps must accept it; random deeper "
             "executions are judged by TLC evaluating the same operator on the logged input.",
        note="Trusted: as C01. The format-dialect sentence is judged with the same operator and cx.native over the MC_C04 shape universe (parsed document of every format mixin / codec) and over lazy format-mixin histories of the sys state machine.",
        tech="TLA+ reference serializer evaluated by TLC as oracle (replay + trace validation)", ref="6 C02"),
    "C03": dict(
        text="Unpack(T, cx, j) in TLA+ is REF_DECODE, total over a universe of foreign JSON-like inputs (43 inputs x every type of the grammar) plus mutated wire forms; "
             "TLC checks WellTyped (Conforms(T, result)) on the model and emits the expected outcome of every (type, input); the real decode must return iff the reference "
             "is defined and return exactly that value with the very classes named in the annotation.",
        note="Leaf constructors are the Python standard library (Ctor table), never mashumaro; inputs are restricted to string-keyed JSON-like data so that the documented behaviour is determined.",
        tech="TLA+ reference deserializer evaluated by TLC as oracle (replay + trace validation)", ref="6 C03"),
    "C05": dict(
        text="FromDict(C, cx, d) in TLA+ returns Ok(instance) or exactly one documented error term (ValueError / Missing(f,C) / Invalid(f, raw value, C) / Extra(keys, C)); "
             "TLC checks Documented and FirstDecides (the first field in declaration order that is missing or invalid decides) on the model and exports every "
             "single and double fault of a valid input, non-mappings, and 43 foreign inputs for every holder class of the grammar; the real exception type and "
             "attributes must equal the expected term (anything else, e.g. AttributeError/NameError, maps to <<other>> which no expectation equals), a returned "
             "instance where an error is expected is 'silently accepted', and the input is deep-compared before/after. Random dataclasses with mutated wire forms are judged by TLC (CoreTrace).",
        note="Discriminator errors (MissingDiscriminatorError / SuitableVariantNotFoundError) are exercised in C12's check. Inputs are string-keyed JSON-like values.",
        tech="TLA+ reference FromDict as oracle; exhaustive fault enumeration by TLC replayed into the code + trace validation", ref="6 C05"),
    "C07": dict(
        text="TLC enumerates every well-formed dataclass layout (<=3 fields quick, <=4 thorough, 9 field kinds, flat / split over base+subclass / default overridden in the subclass) "
             "x every absent/value/null assignment of the keys, proves DefaultIffAbsent on the reference FromDict, and every state is replayed: attributes compared, "
             "and the fields the spec marks as factory-made (FreshIdx) are compared by identity between two decodes.",
        note="Exhaustive in the stated bound. InitVar/ClassVar members are not in the layout grammar yet (init=False is).",
        tech="exhaustive TLC enumeration of layouts x key subsets replayed into the code", ref="6 C07"),
    "C08": dict(
        text="PackDC/EffOpt/NestCx in TLA+ define PROJECT(o, plain); TLC proves ProjectionOnly and NoValueDropped on the model for the whole option lattice "
             "({unset,F,T}^3 Config x sort_keys x 2^3 flags x nested opt-in x keyword arguments x call dialects; Config.dialect axis in thorough) on 3 instances and "
             "every state is replayed: list(to_dict(**kwargs).items()) must equal the expected pairs including order.",
        note="A nested class that enabled a keyword flag receives the outer call's effective value of that keyword (README: the argument is passed to nested classes with the same flag) -- this reading is fixed in DESIGN.md.",
        tech="exhaustive TLC enumeration of the option lattice replayed into the code", ref="6 C08"),
    "C09": dict(
        text="KeyModel (FAlias, FieldKey, AllowedKeys) in TLA+; TLC proves ReadsOnlyAllowed, ExtraExact, AliasWins and enumerates all alias-source subsets x option pairs x all 2^8 key subsets "
             "(70,656 inputs incl. an Any-typed field and aliases that shadow / chain / swap field names); every one is replayed and the result / ExtraKeysError.extra_keys / MissingField.field_name compared.",
        note="Exhaustive for two fields and the three alias sources; class-level discriminator keys are covered in C12's check.", 
        tech="exhaustive TLC enumeration replayed into the code", ref="6 C09"),
    "C10": dict(
        text="Winner(T, cx, dir) in TLA+ is the documented precedence (field option > field strategy > lexicographic (type-key specificity, level)); "
             "TLC enumerates every subset of the 11 simultaneous registrations (2^11 classes, both directions) plus the variants in which one registration is "
             "ser-only / deser-only / pass_through, proves ExactlyOne, and every state is replayed: the marker in the real output must name the predicted winner. "
             "Codec entry point: default_dialect x 5^3 mode assignments of the three keys.",
        note="Format-mixin dialect level is covered at the codec entry point only (DataClassDictMixin has no format dialect).",
        tech="exhaustive TLC enumeration of customization subsets replayed into the code", ref="6 C10"),
    "C12": dict(
        text="State machine MC_C12 (Define / CreateDecoder / Deserialize with a lazily filled tag registry) checked by TLC for VariantChoice (the registry implements the abstract "
             "'eligible class carrying the tag among the classes defined so far'), RegistrySound and NoInheritedTag over ALL histories of length <= 4 (quick) / 5 (thorough), for "
             "3 sites (Config, Annotated field, codec) x field/no-field x include_supertypes; every maximal history is replayed on fresh classes. A deviant registry walk is refuted by TLC (sensitivity).",
        note="Unique tags per hierarchy; class-level discriminators without include_supertypes (documented restriction).",
        tech="TLA+ state machine, exhaustive TLC exploration, behaviours replayed into the code", ref="6 C12"),
    "C13": dict(
        text="sys/Mashumaro.tla models per-class dialect caches and dispatch; TLC proves Faithful/CacheOwn over all call histories (C, S<C x to/from x {none,D1,D2,D3}) and IsolationEq "
             "(call with dialect D == family twin with default dialect D) on the reference semantics; every history is replayed on fresh classes and every (class, direction, dialect) "
             "is compared with a freshly built real twin. Second half: default_dialect x 6 options (declared on the dialect class, inherited from a parent dialect class, or mixed) x 5 format codecs must parse to the BasicEncoder document.",
        note="The deviant 'cache found through the parent class' is refuted by TLC (recorded in evidence.selftests).",
        tech="TLA+ state machine + exhaustive behaviours replayed into the code; cross-codec comparison", ref="6 C13"),
    "C14": dict(
        text="Same state machine with lazily compiled classes (stub -> compile -> install): every history of calls x dialects on lazy C / lazy nested Inner / both must give the outcome of the "
             "history-free reference (== eager twin). Nested GENERIC dataclasses are part of the state machine (gspecs: one specialisation per tuple of type arguments; MC_SysG explores every order of definition and first use of Box[Union[int,str]] / Box[Union[str,int]] / Box[date]; the deviant key that identifies ==-equal arguments is refuted by TLC). Forward references and thread schedules are driven by harness/checks/c14_extra.py.",
        note="Thread schedules: forced at line granularity via sys.settrace for a bounded number of seeded schedules; intra-line preemption only by free-running stress.",
        tech="TLA+ state machine + exhaustive behaviours replayed; seeded forced thread schedules", ref="6 C14"),
    "C15": dict(
        text="CreateCodec / CodecCall actions interleaved with class definitions and mixin calls: TLC checks CodecPure (action property) and every history is replayed; mixin result, "
             "codec result and the reference outcome must agree at every step, class namespaces are snapshotted around codec creation (drift).",
        note="Entry-point agreement for arbitrary nested positions (List[D], Dict[str,D], Optional, Outer.f) is additionally covered by the holder types of C01-C03.",
        tech="TLA+ state machine + exhaustive behaviours replayed into the code", ref="6 C15"),
    "C04": dict(
        text="A format is modelled as a lossless channel on its representable subset (Representable, NullsRestorable in MC_C04.tla); the expected parsed document is Pack(T, CxF(format), v) "
             "(natives for msgpack bytes / TOML dates, TOML null omission) and TLC proves NothingElseDiffers against the basic form; every state (5 formats x shapes x values, through the mixin "
             "methods and through Encoder/Decoder objects) is replayed: parse_F(encode_F(v)) == expected document and decode_F(encode_F(v)) == v.",
        note="Third-party encoders trusted on their representable subset; map keys restricted to text key types; document equality is Python equality (PyYAML sorts keys).",
        tech="TLA+ reference serializer with format contexts as oracle, TLC enumeration replayed into the code", ref="6 C04"),
    "C06": dict(
        text="Draft 2020-12 validation for mashumaro's keyword subset is transcribed into TLA+ (Valid, JEq, ref resolution); real schemas (2 dialects x inline/all_refs) and real serializer output "
             "for every type of the grammar + random deeper schemas are recorded and TLC judges every (schema, instance) pair, Satisfiable, RequiredExact and DistinctDefs; the jsonschema "
             "library is a cross-check: a violation is reported only when both validators reject.",
        note="Unknown keywords / patterns make an event unmodelled (counted). Disagreements between the two validators are recorded as a self-test count, never as verdicts.",
        tech="TLA+ JSON Schema validator as judge in TLC trace validation of recorded schema/instance events", ref="6 C06"),
    "C11": dict(
        text="UnpackUnion / UnpackLiteral / PackMembers in TLA+ (reading fixed in DESIGN.md A.3); TLC proves NullOnlyNull, ExactUnchanged, WellTyped, LiteralListed and enumerates every ordered union of 2..3 "
             "(thorough: 4) distinct members of 9 member types + 6 Literal types, bare and as a dataclass field, x 30 foreign inputs and the members' samples; every state is replayed.",
        note="TypeVar constraints are not in the bridge yet. Shapes holding two unions over the same members in permuted order are included.", tech="exhaustive TLC enumeration of unions x inputs replayed into the code", ref="6 C11"),
    "C20": dict(
        text="The builder context is a state machine in the trace spec (ctx[b] = definitions so far): TLC checks WellFormed (metaschema subset, cross-checked with check_schema), RefsClosed "
             "(every $ref resolves in the document, starts with the configured prefix and names a collected definition), DefsMonotone over sequences of JSONSchemaBuilder.build calls, and the "
             "JSONSchema.from_dict(...).to_dict() round trip; totality is exercised over every type of the grammar, the TLC-enumerated defaulted-class families of MC_C20 (value / None defaults in both declaration orders, built one after another in one process), random dataclasses with defaults of every type under 5-9 Configs, and self-references.",
        note="Types the builder itself declares unsupported (NotImplementedError: re.Pattern) are outside the schema-supported grammar and counted as unmodelled.",
        tech="TLC trace validation of recorded build events against a TLA+ builder-context state machine", ref="6 C20"),
    "C18": dict(
        text="Heap.tla defines SharedPaths(T, cx, v): the set of positions of mutable containers the output must (and may only) share by identity -- exactly positions whose origin type is in "
             "no_copy_collections and whose elements are conversion-free (ConvFree, including the customisation Winner); TLC proves DefaultSharesNothing and OnlyListed and emits, for 28 shapes x all "
             "N subsets of {list,dict,set} x mixin/plain x values, the expected wire form and expected shared paths; the replayer compares id()-graphs in BOTH directions (no hidden sharing, promised "
             "sharing present), deep-compares the argument before/after, and checks that deserialization shares nothing with and does not mutate its input; to_dict(dialect=D) is also judged AFTER to_msgpack / to_jsonb with the same dialect object (histories).",
        note="Any positions are excepted as in the statement (AnyPaths). Format dialects' no_copy (orjson/msgpack/toml) are modelled by the same option.",
        tech="TLA+ sharing model (paths) + TLC enumeration replayed with identity-graph comparison", ref="6 C18"),
    "C19": dict(
        text="Hooks.tla gives the closed-form pre/post-order traversal (SerTrace / DeserTrace) and the reference Pack/Unpack apply fixed observable hook transformations; TLC proves Once and PreBeforePost "
             "and emits expected result + expected hook trace for all hook-subset / context-flag combinations on Outer/Inner/union members, bare list / union / dict shapes, and class-level discriminator families whose base declares hooks (FamOnce); each is replayed through "
             "to_dict/from_dict, five format mixins and the basic codec, comparing both the result and the recorded hook log (with the context object's identity).",
        note="Speculative __pre_deserialize__ calls of failing union candidates are allowed; speculative serialize hooks are not.",
        tech="TLA+ traversal spec as oracle for recorded hook traces (replay)", ref="6 C19"),
    "C16": dict(
        text="Quote.tla specifies Python's single-quoted literal lexing over code points; TLC proves ReprSafe (Repr(s) denotes s for every string of length <= 4 over an adversarial "
             "10-character alphabet), RawSafeWhenPlain and RawSpliceRefuted (the deviant 'splice between quotes' emission), and emits one class per (position, string) for 12 positions (incl. every to_dict emission path of an alias) "
             "with the expected by-alias serialization and deserialization from the reference Pack/Unpack; each is built and executed for real, and a counter injected into builtins "
             "detects any execution of payload strings.",
        note="TLC's share is the generator, the lexing theorems and the oracle; the decisive evidence is the replay (DESIGN.md 6 C16).",
        tech="TLA+ lexing theorems + exhaustive (position, string) enumeration replayed into the code with an execution sentinel", ref="6 C16"),
    "C17": dict(
        text="Nsp.tla models the namespaces generated code is exec'd into; TLC proves Closed and BoundByIdentity over all registration orders when every object gets its own name and refutes "
             "them for first-wins (setdefault) naming with two classes sharing a qualified name. Env-guarded hooks record every binding (after setdefault) and every executed source text; "
             "the recorder projects the global names / module-rooted attribute chains loaded on ALL paths of the generated functions, and TLC (NspTrace) steps the namespace machine along "
             "these facts for every class of the grammar, random schemas and hand-written local / functional-API / same-named / MappingProxyType / local-dialect subjects.",
        note="The projection from code objects is part of the trusted bridge; TLC judges a recorded fact base here (DESIGN.md 6 C17).",
        tech="TLA+ namespace state machine; TLC validation of traces recorded through hooks", ref="6 C17"),
}
CONF = {"C01", "C02", "C03", "C05", "C07", "C08", "C09", "C10", "C11", "C13", "C15", "C16"}
CONF_TEXT = (" In addition, seeded random CONFIGURED dataclass families (options x flags x Config.dialect x strategy tables x three alias sources x defaults x nested opt-in; "
             "200 families quick / 1500 thorough, a slice of its own per property) are driven through several mixin calls with keyword arguments and call dialects, mutated inputs and codec objects "
             "with / without a default_dialect; every recorded call is judged by TLC (CoreTrace) under the call's own context, and this property reads its own clauses of the verdicts.")
EXTRA = {
    "C04": " Codec objects are also constructed with a default_dialect that customises nothing the subject contains (same documents expected).",
    "C06": " Configured families without strategies (alias sources incl. two on one field, serialized by alias with default options) are schema subjects too.",
    "C20": " The builder context is also explored as a state machine of its own (sys/SchemaCtx.tla, MC_SchemaCtx): every sequence of builder builds, fresh one-shot builds and one-off build_json_schema calls that share the builder's context while overriding one setting, for dialect x all_refs x ref_prefix; behaviours are replayed against the real builder.",
    "C12": " A variant that declares a class-level discriminator of its own (two dispatch levels, Discr.tla FromDictD), a Discriminator OBJECT shared with an unrelated class's Config, variant_tagger_fn (one tag / a list of tags per class) and discriminators on an outer Annotated around Optional / List are explored as further histories.",
    "C14": " Postponed evaluation is a state machine of its own (sys/Postponed.tla: late definition of a forward-referenced class x stub / real method slots of a parent compiled eagerly or lazily and of its nested plain / mixin class; Faithful, NoRealToStub; the deviant 'strict nested compilation' refuted by TLC) whose every behaviour is replayed; the per-format method of a discriminated variant is exercised in both orders of first use (dispatch / holder); sys/RegistryThreads.tla (lazily filled discriminator registry under concurrent first calls: Faithful, Monotone, clearing deviant refuted) is bound by seeded LINE-LEVEL thread schedules of the generated dispatcher.",
    "C17": " One generic class specialised with two same-named classes from two modules is a subject in both orders of first compilation.",
}
for _k in CONF:
    CLAIMED[_k]["text"] += CONF_TEXT
for _k, _v in EXTRA.items():
    CLAIMED[_k]["text"] += _v
REASON_PENDING = "check not built yet in this round (construction order DESIGN.md 11); not claimed"

checks = []
na = []
for p in props:
    pid = p["id"]
    if pid in CLAIMED:
        c = CLAIMED[pid]
        checks.append({
            "property_id": pid,
            "quick_cmd": f"./check {pid} --tier quick",
            "thorough_cmd": f"./check {pid} --tier thorough",
            "evidence_file": f"/verif/evidence/{pid}.json",
            "replay_cmd_template": f"./check {pid} --replay {{path}}",
            "engine": "tlc",
            "level_claimed": {"category": c.get("cat", "model_checking"), "text": c["text"], "design_ref": "DESIGN.md " + c["ref"]},
            "level_note": c["note"],
            "technique": c["tech"],
        })
    else:
        na.append({"property_id": pid, "reason": REASON_PENDING})

hooks_commits = []
hc = os.path.join(VERIF, "tools", "hook_commits.txt")
if os.path.exists(hc):
    hooks_commits = [l.strip() for l in open(hc) if l.strip()]

m = {
    "version": 1,
    "setup_cmd": "./setup.sh",
    "hooks": {
        "guard": "MASHUMARO_VERIF",
        "enable": "environment variable MASHUMARO_VERIF=1 (set by ./check); pure Python, no build step: checks import mashumaro from /repo's working tree",
        "baseline_off_cmd": "cd /repo && env -u MASHUMARO_VERIF /venv/bin/python -m pytest -ra -q -p no:cacheprovider --timeout=900 --continue-on-collection-errors",
        "source_commits": hooks_commits,
        "add_only": True,
    },
    "engines": [
        {"name": "tlc", "path": "/verif/spec", "serves_properties": sorted(CLAIMED),
         "kind_free_text": "explicit TLA+ specification (spec/ref reference operators, spec/sys state machine, spec/mc model configs, spec/trace trace specs) checked with TLC 1.8; bound to the code by replay of TLC-generated vectors/behaviours and by TLC validation of recorded traces"},
    ],
    "checks": checks,
    "not_applicable": na,
    "notes": "See DESIGN.md. known_findings.json lists genuine deviations recorded rather than repaired; fix: commits in /repo are listed there as fixed.",
}
json.dump(m, open(os.path.join(VERIF, "MANIFEST.json"), "w"), indent=1)
print("claimed", sorted(CLAIMED), "pending", len(na))
