#!/bin/sh
# usage: tools/seeded_matrix.sh [<seeded id> ...]     (default: all of /verif/seeded)
# For each seeded change: scratch worktree of /repo HEAD + patch, run the quick check of its own property (and any extra
# check ids listed in meta.json "also_run") with VERIF_REPO pointing at it, record the outcome in meta.json "detected_by".
# /repo itself is never touched; every worktree is removed.  tools/try_seeded_inplace.sh does the in-place variant.
cd /verif
[ $# -eq 0 ] && set -- $(ls seeded)
for sid in "$@"; do
  d=/verif/seeded/$sid
  prop=$(python3 -c "import json;print(json.load(open('$d/meta.json'))['property'])")
  also=$(python3 -c "import json;print(' '.join(json.load(open('$d/meta.json')).get('also_run',[])))")
  wt=$(mktemp -d /tmp/seeded_mx_XXXX); rmdir "$wt"
  git -C /repo worktree add -q --detach "$wt" HEAD || exit 2
  if ( cd "$wt" && git apply "$d/patch.diff" ); then
    for id in $prop $also; do
      out=$(VERIF_REPO="$wt" VERIF_EVIDENCE_DIR="$wt/.evidence" ./check "$id" --tier quick 2>&1); rc=$?
      nv=$(printf '%s\n' "$out" | grep -c '^VIOLATION')
      summ=$(printf '%s\n' "$out" | grep '^\[C' | tail -1)
      echo "$sid $id exit=$rc violation_lines=$nv $summ"
      python3 - "$d/meta.json" "$id" "$rc" "$nv" "$summ" <<'PY'
import json,sys
p,cid,rc,nv,summ=sys.argv[1:6]
m=json.load(open(p)); m.setdefault("detected_by",{})[cid]={"cmd":f"VERIF_REPO=<worktree with patch> ./check {cid} --tier quick","exit":int(rc),"violation_lines":int(nv),"summary":summ}
json.dump(m,open(p,"w"),indent=1)
PY
    done
  else
    echo "$sid: patch does not apply"
  fi
  git -C /repo worktree remove --force "$wt"
done
