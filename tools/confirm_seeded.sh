#!/bin/sh
# usage: tools/confirm_seeded.sh <id> <outdir>   -- independent confirmation of a seeded change in a scratch worktree of /repo HEAD:
#   patch applies, demo fails with it and passes without it, the unedited suite passes with it.  Writes <outdir>/CONFIRM.txt
id="$1"; out="$2"
wt=$(mktemp -d /tmp/confirm_${id}_XXXX)
rmdir "$wt"
git -C /repo worktree add -q --detach "$wt" HEAD || exit 2
res="$out/CONFIRM.txt"; : > "$res"
( cd "$wt" && git apply "$out/patch.diff" ) && echo "applies: yes" >> "$res" || { echo "applies: NO" >> "$res"; git -C /repo worktree remove --force "$wt"; exit 1; }
/venv/bin/python "$out/demo.py" "$wt" > "$out/demo_with.log" 2>&1; echo "demo_with_patch_exit: $?" >> "$res"
/venv/bin/python "$out/demo.py" /repo > "$out/demo_without.log" 2>&1; echo "demo_without_patch_exit: $?" >> "$res"
( cd "$wt" && env -u MASHUMARO_VERIF /venv/bin/python -m pytest -q -p no:cacheprovider --timeout=900 > "$out/suite.log" 2>&1; echo "suite_exit: $?" >> "$res"; tail -1 "$out/suite.log" >> "$res" )
git -C /repo worktree remove --force "$wt"
cat "$res"
