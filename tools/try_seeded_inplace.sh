#!/bin/sh
# usage: tools/try_seeded_inplace.sh <patch.diff> <check id> ...   (applies to /repo, runs, ALWAYS restores /repo)
set -u
patch="$1"; shift
cd /repo || exit 2
if [ -n "$(git status --porcelain --untracked-files=no)" ]; then echo "/repo is not clean"; exit 2; fi
git apply "$patch" || { echo "patch does not apply"; exit 2; }
trap 'git -C /repo checkout -- .' EXIT INT TERM
for id in "$@"; do
  echo "=== $id with $(basename $(dirname $patch))"
  (cd /verif && VERIF_EVIDENCE_DIR=/tmp/seeded_evidence ./check "$id" --tier quick 2>&1 | grep -v "^WARNING" | grep -E "^VIOLATION|^\[C" | awk '/^VIOLATION/{n++} /^\[C/{print} END{print "VIOLATION lines: " n+0}')
done
