#!/usr/bin/env python3
"""Copies a confirmed seeded change (patch.diff, demo.py, meta.json, CONFIRM.txt written by tools/confirm_seeded.sh) from a scratch
output directory into /verif/seeded/<id>/.   usage: tools/assemble_seeded.py <seeded id> <scratch out dir>"""
import json, os, shutil, sys
sid, src = sys.argv[1], sys.argv[2]
HEAD = os.popen('git -C /repo rev-parse --short HEAD').read().strip()
dst = f'/verif/seeded/{sid}'
os.makedirs(dst, exist_ok=True)
shutil.copy(src + '/patch.diff', dst + '/patch.diff')
shutil.copy(src + '/demo.py', dst + '/demo.py')
m = json.load(open(src + '/meta.json'))
lines = open(src + '/CONFIRM.txt').read().splitlines()
conf = dict(l.split(': ', 1) for l in lines if ': ' in l)
old = json.load(open(dst + '/meta.json')) if os.path.exists(dst + '/meta.json') else {}
meta = {"id": sid, "property": m['property'], "round": {"b": 2, "c": 3, "d": 4, "e": 5, "f": 6}.get(sid[-1], 1),
        "summary": m.get('summary'), "needs_to_manifest": m.get('needs'), "files": m.get('files'),
        "origin": "written by a fresh sub-agent that saw only the property text and its own scratch worktree of /repo (nothing from /verif)",
        "confirmed_by_me": {"how": "tools/confirm_seeded.sh in a scratch worktree of /repo HEAD: git apply patch.diff; demo.py <worktree> ; demo.py /repo ; full unedited test suite with the guard variable unset",
                            "patch_applies": conf.get('applies'), "demo_exit_with_patch": int(conf.get('demo_with_patch_exit', -1)),
                            "demo_exit_without_patch": int(conf.get('demo_without_patch_exit', -1)), "suite_exit": int(conf.get('suite_exit', -1)), "suite_tail": lines[-1]},
        "applies_to_repo_commit": HEAD}
for k in ("detected_by", "first_version_of_check", "note", "also_run"):
    if k in old:
        meta[k] = old[k]
json.dump(meta, open(dst + '/meta.json', 'w'), indent=1)
print(dst)
