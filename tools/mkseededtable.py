#!/usr/bin/env python3
"""Rewrites the table between SEEDED_TABLE_BEGIN / SEEDED_TABLE_END in DESIGN.md from seeded/*/meta.json."""
import glob, json, os, re
rows = ["| id | property | what the change does (first sentence of the author's summary) | first version of the check | own check now (quick tier) |", "|---|---|---|---|---|"]
for p in sorted(glob.glob('/verif/seeded/*/meta.json')):
    m = json.load(open(p))
    summ = re.split(r'(?<=[.;:])\s', (m.get('summary') or '').strip())[0][:230].replace('|', '/').replace('\n', ' ')
    fv = m.get('first_version_of_check', {})
    first = 'caught' if fv.get('outcome') == 'caught' else 'missed -> ' + fv.get('strengthening', '').replace('|', '/')
    det = m.get('detected_by', {}).get(m['property'])
    now = f"exit {det['exit']}, {det['violation_lines']} VIOLATION line(s)" if det else 'not run'
    rows.append(f"| {m['id']} | {m['property']} | {summ} | {first} | {now} |")
s = open('/verif/DESIGN.md').read()
i = s.index('<!-- SEEDED_TABLE_BEGIN -->'); j = s.index('<!-- SEEDED_TABLE_END -->')
s = s[:i] + '<!-- SEEDED_TABLE_BEGIN -->\n' + '\n'.join(rows) + '\n' + s[j:]
open('/verif/DESIGN.md', 'w').write(s)
print(len(rows) - 2, 'rows')
