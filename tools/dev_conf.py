"""development aid: record + judge configured families ONCE, then show per property what the known-findings file does not cover
usage: PYTHONPATH=/verif MASHUMARO_VERIF=1 /venv/bin/python tools/dev_conf.py <n families> [seed] [max shown]"""
import json
import sys

from harness import tlc, trace
from harness.checks import conf_props
from harness.report import Report

n = int(sys.argv[1]) if len(sys.argv) > 1 else 200
seed = int(sys.argv[2]) if len(sys.argv) > 2 else 1
show = int(sys.argv[3]) if len(sys.argv) > 3 else 2
evs = conf_props.record(seed, n)
judged = [e for e in evs if e[0] != "BuildFailed"]
print("events", len(judged), "build failures", len(evs) - len(judged))
for e in evs:
    if e[0] == "BuildFailed":
        print("BUILD", json.dumps(e[3])[:300], json.dumps(e[2])[:1500])
bad, _ = trace.validate(judged, shards=16)
byid = {e[1]: e for e in evs}
allc = {}
for eid, (cl, exp) in bad.items():
    for c in cl:
        allc[c] = allc.get(c, 0) + 1
print("failing clauses (before known findings):", allc)
for prop in sorted(conf_props.CLAUSES):
    rep = Report(prop, "quick", seed)
    for eid, (clauses, exp) in bad.items():
        e = byid[eid]
        for c in clauses:
            if c in conf_props.CLAUSES[prop]:
                rep.violation(c, {"T": e[2], "input": e[3], "expected": exp, "actual": e[4], "call": e[6], "channel": "V", "event": e[0],
                                  "family": "configured", "entry": "codec" if ".c" in e[1] else "mixin", "eid": eid})
    print(f"=== {prop}: unknown {len(rep.violations)} known {rep.known_hits}")
    seen = {}
    for r in rep.violations:
        seen.setdefault(r["clause"], []).append(r)
    for c, rs in seen.items():
        print("  --", c, len(rs))
        for r in rs[:show]:
            print("    eid ", r["eid"], r["entry"], r["features"])
            print("    T   ", json.dumps(r["T"])[:2500])
            print("    in  ", json.dumps(r["input"])[:900])
            print("    call", json.dumps(r["call"])[:400])
            print("    act ", json.dumps(r["actual"])[:900])
            print("    exp ", json.dumps(r["expected"])[:900])
tlc.cleanup()
