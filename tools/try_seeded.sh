#!/bin/sh
# usage: tools/try_seeded.sh <patch.diff> <check id> [<check id> ...]
# Runs the quick checks against a scratch worktree of /repo HEAD with the seeded change applied (VERIF_REPO),
# so that /repo itself is never dirty while other work is going on.  The worktree is removed afterwards.
# (tools/try_seeded_inplace.sh does the same by applying the patch to /repo and undoing it.)
set -u
patch="$1"; shift
wt=$(mktemp -d /tmp/seeded_try_XXXX); rmdir "$wt"
git -C /repo worktree add -q --detach "$wt" HEAD || exit 2
trap 'git -C /repo worktree remove --force "$wt"' EXIT INT TERM
( cd "$wt" && git apply "$patch" ) || { echo "patch does not apply"; exit 2; }
for id in "$@"; do
  echo "=== $id with $(basename $(dirname $patch))"
  (cd /verif && VERIF_REPO="$wt" VERIF_EVIDENCE_DIR="$wt/.evidence" ./check "$id" --tier quick 2>&1 | grep -v "^WARNING" | grep -E "^VIOLATION|^\[C" | awk '/^VIOLATION/{n++} /^\[C/{print} END{print "VIOLATION lines: " n+0}')
done
