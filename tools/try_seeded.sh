#!/bin/sh
# usage: tools/try_seeded.sh <patch.diff> <check id> [<check id> ...]
# applies a seeded change to /repo, runs the quick checks, and ALWAYS restores /repo (git checkout -- .)
set -u
patch="$1"; shift
cd /repo || exit 2
if [ -n "$(git status --porcelain --untracked-files=no)" ]; then echo "/repo is not clean"; exit 2; fi
git apply "$patch" || { echo "patch does not apply"; exit 2; }
trap 'git -C /repo checkout -- . ; git -C /repo clean -fdq mashumaro 2>/dev/null' EXIT INT TERM
for id in "$@"; do
  echo "=== $id with $(basename $(dirname $patch))"
  (cd /verif && ./check "$id" --tier quick 2>&1 | grep -v "^WARNING" | grep -c "^VIOLATION" | sed 's/^/VIOLATION lines: /')
  (cd /verif && tail -c 400 evidence/$id.json | tr -d '\n' | grep -o '"violations": [0-9]*')
done
