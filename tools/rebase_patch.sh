#!/bin/sh
# usage: tools/rebase_patch.sh <outdir>  -- re-expresses <outdir>/patch.diff against the current /repo HEAD (3-way), keeps the original as patch.orig.diff
out="$1"
wt=$(mktemp -d /tmp/rebase_XXXX); rmdir "$wt"
git -C /repo worktree add -q --detach "$wt" HEAD || exit 2
cd "$wt"
if git apply --check "$out/patch.diff" 2>/dev/null; then echo "applies cleanly, nothing to do"; else
  if git apply --3way "$out/patch.diff" >/dev/null 2>&1 && ! git diff --name-only --diff-filter=U | grep -q .; then
    cp "$out/patch.diff" "$out/patch.orig.diff"; git diff HEAD > "$out/patch.diff"; echo "rebased with 3-way merge"
  else echo "CONFLICT: manual rebase needed"; git diff | head -60; fi
fi
git -C /repo worktree remove --force "$wt"
