------------------------------- MODULE MC_C07 -------------------------------
(***************************************************************************)
(* C07 -- absent keys take defaults, present keys always win.              *)
(* Exhaustive over dataclass LAYOUTS (sequences of <= MaxLen fields of the *)
(* kinds below, filtered by the dataclasses ordering rule, optionally      *)
(* split across a base class and a subclass, optionally with the first     *)
(* field's default overridden in the subclass) and over every assignment   *)
(* absent / explicit value / explicit null to the keys.                    *)
(***************************************************************************)
EXTENDS Gen, Json, SequencesExt

CONSTANT MaxLen
VARIABLES T, v, kind

Kinds == {"req", "val", "fac", "optnone", "optval", "optzero", "valnone", "kwreq", "kwval", "noinit"}
FN(i) == <<"f1", "f2", "f3", "f4">>[i]
IntL == <<"list", <<"int">> >>
FieldOf(k, i) ==
  CASE k = "req"     -> <<FN(i), <<"int">>, <<"req">>, <<>> >>
    [] k = "val"     -> <<FN(i), <<"int">>, <<"val", I(5)>>, <<>> >>
    [] k = "fac"     -> <<FN(i), IntL, <<"fac", L(<<I(1)>>)>>, <<>> >>
    [] k = "optnone" -> <<FN(i), <<"opt", <<"int">> >>, <<"val", None>>, <<>> >>
    [] k = "optval"  -> <<FN(i), <<"opt", <<"int">> >>, <<"val", I(7)>>, <<>> >>
    [] k = "optzero" -> <<FN(i), <<"opt", <<"int">> >>, <<"val", I(0)>>, <<>> >>      \* nullable, FALSY non-None default
    [] k = "valnone" -> <<FN(i), <<"int">>, <<"val", None>>, <<>> >>
    [] k = "kwreq"   -> <<FN(i), <<"int">>, <<"req">>, << <<"kw_only", TRUE>> >> >>
    [] k = "kwval"   -> <<FN(i), <<"int">>, <<"val", I(6)>>, << <<"kw_only", TRUE>> >> >>
    [] k = "noinit"  -> <<FN(i), <<"int">>, <<"val", I(3)>>, << <<"init", FALSE>> >> >>
HasDefault(k) == k \notin {"req", "kwreq"}
Positional(k) == k \notin {"kwreq", "kwval", "noinit"}
\* dataclasses: a positional field without default may not follow a positional field with default
WellFormed(ks) == \A i, j \in DOMAIN ks : (i < j /\ Positional(ks[i]) /\ Positional(ks[j]) /\ HasDefault(ks[i])) => HasDefault(ks[j])

Layouts == { ks \in UNION { [1..n -> Kinds] : n \in 1..MaxLen } : WellFormed(ks) }

Fields(ks) == [i \in DOMAIN ks |-> FieldOf(ks[i], i)]
Flat(ks)   == <<"dc", "K", Fields(ks), <<>> >>
\* fields 1..s in a base class, the rest in the subclass
Split(ks, s) == <<"dc", "K", Fields(ks), << <<"bases", << <<"dc", "B", SubSeq(Fields(ks), 1, s), <<>> >> >> >> >> >>
\* the subclass re-declares field 1 (same position) as a plain-valued field of kind k2: the ancestor's
\* init / kw_only / default / nullability must NOT survive the re-declaration
ReField(k2) == IF k2 = "val" THEN <<FN(1), <<"int">>, <<"val", I(99)>>, <<>> >>
               ELSE <<FN(1), <<"opt", <<"int">> >>, <<"val", I(98)>>, <<>> >>
Override(ks, k2) == LET fs == Fields(ks)
                        nf == [fs EXCEPT ![1] = ReField(k2)] IN
                    <<"dc", "K", nf, << <<"bases", << <<"dc", "B", fs, <<>> >> >> >>, <<"redeclared", <<FN(1)>> >> >> >>
Overrides == { Override(ks, k2) : ks \in { l \in Layouts : l[1] \in {"req", "val", "optnone", "noinit", "kwval", "kwreq"} }, k2 \in {"val", "optval"} }
\* after the re-declaration field 1 is positional with a default: every later positional field needs one too
WellFormedCls(c) == \A j \in 2..Len(DcFields(c)) :
                       (GetOpt(FOpts(DcFields(c)[j]), "kw_only", FALSE) \/ ~FInit(DcFields(c)[j])) \/ FDflt(DcFields(c)[j])[1] # "req"
\* members that are NOT dataclass fields: cv: ClassVar[int] = 4 and iv: InitVar[int] = 5 (declared after the fields).  The
\* reference FromDict does not know them -- keys "cv" / "iv" in the input are unknown keys and are ignored; the real class
\* refuses (in __post_init__) any iv other than its default and any change of cv
FlatX(ks) == <<"dc", "K", Fields(ks), << <<"extras", <<"cv", "iv">> >> >> >>
\* the same layouts as frozen / slotted dataclasses (slots=True makes dataclass() build a second class object)
FlatO(ks, o) == <<"dc", "K", Fields(ks), << <<o, TRUE>> >> >>
Classes == { Flat(ks) : ks \in Layouts } \cup { FlatX(ks) : ks \in { l \in Layouts : Len(l) <= 2 } }
           \cup { FlatO(ks, o) : ks \in { l \in Layouts : Len(l) <= 2 }, o \in {"frozen", "slots"} }
           \cup { Chain3(Flat(ks)) : ks \in { l \in Layouts : Len(l) <= 3 } }                       \* K(M3(G3)): the middle class's declarations are in effect
           \cup UNION { { Split(ks, s) : s \in 1..Len(ks) } : ks \in { l \in Layouts : Len(l) >= 2 } }
           \cup { c \in Overrides : WellFormedCls(c) }
Good(f) == IF FType(f) = IntL THEN L(<<I(8), I(9)>>) ELSE I(40)

\* ---- aliased layouts: every field carries an alias from one of the three sources, with and without
\* allow_deserialization_not_by_alias.  The key that counts is the alias (or, if allowed and the alias key is ABSENT, the name):
\* an explicit null under the alias key is a present key -- it wins over the default and over the name key
AliasFields(ks, src) == [i \in DOMAIN ks |-> LET f == FieldOf(ks[i], i) IN
                            IF src = "cfg" THEN f ELSE <<f[1], f[2], f[3], f[4] \o << <<src, "a_" \o f[1]>> >> >>]
Aliased(ks, src, allow) ==
  <<"dc", "K", AliasFields(ks, src),
    << <<"allow_deserialization_not_by_alias", allow>> >>
    \o (IF src = "cfg" THEN << <<"aliases", [i \in DOMAIN ks |-> <<FN(i), "a_" \o FN(i)>>]>> >> ELSE <<>>) >>
AliasedClasses == { Aliased(ks, src, allow) : ks \in { l \in Layouts : Len(l) <= 2 }, src \in {"alias", "aalias", "cfg"}, allow \in BOOLEAN }
\* per field: 0 absent, 1 value under the name, 2 null under the name, 3 value under the alias, 4 null under the alias,
\* 5 null under the alias AND a value under the name
AliasInputs(C) == { Dct(LET fs == DcFields(C)
                            one(i) == LET n == S(FName(fs[i])) a == S("a_" \o FName(fs[i])) g == Good(fs[i]) IN
                                      CASE ch[i] = 0 -> <<>>
                                        [] ch[i] = 1 -> << <<n, g>> >>
                                        [] ch[i] = 2 -> << <<n, None>> >>
                                        [] ch[i] = 3 -> << <<a, g>> >>
                                        [] ch[i] = 4 -> << <<a, None>> >>
                                        [] ch[i] = 5 -> << <<n, g>>, <<a, None>> >>
                        IN FoldLeft(LAMBDA acc, i : acc \o one(i), <<>>, [i \in DOMAIN fs |-> i]))
                    : ch \in [DOMAIN DcFields(C) -> 0..5] }
IsAliased(C) == HasOpt(DcCfg(C), "allow_deserialization_not_by_alias")

\* per field: 0 absent, 1 explicit value, 2 explicit null
Inputs(C) == { Dct(LET fs == DcFields(C)
                       idx == SelectSeq([i \in DOMAIN fs |-> i], LAMBDA i : ch[i] # 0) IN
                   [n \in DOMAIN idx |-> <<S(FName(fs[idx[n]])), IF ch[idx[n]] = 1 THEN Good(fs[idx[n]]) ELSE None>>])
               : ch \in [DOMAIN DcFields(C) -> 0..2] }
\* classes with non-field members also meet every input with the keys "cv" and "iv" present
WithExtras(j) == Dct(j[2] \o << <<S("cv"), I(77)>>, <<S("iv"), I(78)>> >>)
AllInputs(C) == IF IsAliased(C) THEN AliasInputs(C)
                ELSE IF HasOpt(DcCfg(C), "extras") THEN Inputs(C) \cup { WithExtras(j) : j \in Inputs(C) } ELSE Inputs(C)

\* (a Split class needs a proper prefix in its base; Chain3's leaf declares nothing itself: its base M3 carries every field)
ValidSplit(C) == \A o \in Range(DcCfg(C)) : o[1] = "bases" => Len(o[2][1][3]) < Len(DcFields(C)) \/ HasOpt(DcCfg(C), "redeclared") \/ o[2][1][2] = "M3"

Init == T = <<"start">> /\ v = <<"nov">> /\ kind = "start"
Next == \/ kind = "start" /\ T' \in { C \in Classes : ValidSplit(C) } \cup AliasedClasses /\ v' = v /\ kind' = "type"
        \/ kind = "type" /\ T' = T /\ v' \in AllInputs(T) /\ kind' = "input"
        \/ kind = "start" /\ T' \in SelfFams /\ v' \in SelfInputs /\ kind' = "selfinput"

Dec == Unpack(T, DefaultCx, v)

\* ---- the property on the model
\* the key that counts for field f (stated independently of Unpack's FieldKey): the alias if the class gives one and that key is
\* present (with any value, null included); else the name if the field has no alias or reading by name is allowed
KeyThatCounts(f) ==
  LET a == S("a_" \o FName(f)) n == S(FName(f)) IN
  IF ~IsAliased(T) THEN n
  ELSE IF PairsHas(v[2], a) THEN a
  ELSE IF GetOpt(DcCfg(T), "allow_deserialization_not_by_alias", FALSE) THEN n
  ELSE a
DefaultIffAbsent ==
  (kind = "input" /\ IsOk(Dec)) =>
    \A i \in DOMAIN DcFields(T) : LET f == DcFields(T)[i] k == KeyThatCounts(f) x == Dec[2][3][i] IN
      IF ~FInit(f) THEN x = DefaultOf(f)                                   \* never read from the input
      ELSE IF ~PairsHas(v[2], k) THEN x = DefaultOf(f)                      \* absent => default
      ELSE IF IsNone(PairsGet(v[2], k)) THEN IsNone(x)                      \* explicit null wins
      ELSE x = PairsGet(v[2], k)                                            \* explicit value wins (ints / int lists convert to themselves)
\* which fields must hold a FRESH factory result (checked by identity in the replay)
FreshIdx == { i \in DOMAIN DcFields(T) : FDflt(DcFields(T)[i])[1] = "fac" /\ ~PairsHas(v[2], S(FName(DcFields(T)[i]))) }

\* nested documents of the subclass: own fields explicit or defaulted, at every depth (on the reference)
SelfDefaults == kind = "selfinput" => IsOk(Dec)
EmitInv == /\ kind = "input" => PrintT(ToJson(<<"inp", T, v, Dec, IF IsOk(Dec) THEN FreshIdx ELSE {}>>))
           /\ kind = "selfinput" => PrintT(ToJson(<<"inp", T, v, Dec, {}>>))
=============================================================================
