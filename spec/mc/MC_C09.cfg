INIT Init
NEXT Next
INVARIANT ReadsOnlyAllowed
INVARIANT ExtraExact
INVARIANT AliasWins
INVARIANT SiblingAliasOwn
INVARIANT InitFalseNeverKey
INVARIANT DiscrKeyAccepted
INVARIANT EmitInv
