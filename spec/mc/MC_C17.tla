------------------------------- MODULE MC_C17 -------------------------------
(* two distinct classes sharing one module-qualified name (k1, k2), a local class, a functional enum *)
EXTENDS Nsp
MCNameOf(o) == CASE o \in {"k1", "k2"} -> "m.K" [] o = "loc" -> "f.<locals>.L" [] o = "en" -> "m.E" [] OTHER -> o
=============================================================================
