INIT Init
NEXT Next
INVARIANT DefaultsConform
INVARIANT EmitInv
