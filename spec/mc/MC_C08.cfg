CONSTANTS
  Full = FALSE
INIT Init
NEXT Next
INVARIANT ProjectionOnly
INVARIANT NoValueDropped
INVARIANT EmitInv
