CONSTANTS
  MaxMembers = 3
INIT Init
NEXT Next
INVARIANT NullOnlyNull
INVARIANT ExactUnchanged
INVARIANT WellTyped
INVARIANT LiteralListed
INVARIANT EmitInv
