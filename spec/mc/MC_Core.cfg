CONSTANTS
  Depth = 1
  Emit = FALSE
  Foreign = FALSE
INIT Init
NEXT Next
INVARIANT Conforming
INVARIANT BasicForm
INVARIANT RoundTrip
INVARIANT WellTyped
INVARIANT EmitInv
