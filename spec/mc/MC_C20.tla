------------------------------- MODULE MC_C20 -------------------------------
(***************************************************************************)
(* C20 "total": the schema builder never crashes on a class of the         *)
(* supported grammar, whatever its DEFAULTS and serialization options.     *)
(* Families of defaulted classes, enumerated exhaustively:                 *)
(*   DP(t, order, cfg):  a: t = <value>,  b: t = None  (a None default on  *)
(*   a non-Optional annotation),  c: Optional[t] = <value>,                *)
(*   d: Optional[t] = None -- in both declaration orders of a and b, for   *)
(*   every leaf type and every container of representative leaves, under   *)
(*   {default, omit_none, omit_default, serialize_by_alias} configs.       *)
(* TLC emits the class terms; each is built into a schema under            *)
(* {Draft 2020-12, OpenAPI 3.1} x {inline, all_refs} IN ONE PROCESS PER    *)
(* SHARD (so that builds follow one another) and the recorded schema       *)
(* events are judged by SchemaTrace (WellFormed, RefsClosed).              *)
(***************************************************************************)
EXTENDS Gen, Json

VARIABLES T, kind

Dflt(v) == AsDflt(v)
Nested == <<"dc", "Nst", << <<"p", <<"date">>, <<"req">>, <<>> >>, <<"q", <<"int">>, <<"val", I(1)>>, <<>> >> >>, << <<"mixin", "plain">> >> >>
SubjTypes == (Leaves \ { <<"none">>, <<"any">> }) \cup { Nested }
             \cup { t \in Ctor1(RepLeaves, RepKeys) : t[1] \in {"list", "vtuple", "set", "frozenset", "dict", "tuple", "ntuple", "tdict", "deque", "odict", "opt", "newtype", "utuple"} }
Cfgs == { <<>>, << <<"omit_none", TRUE>> >>, << <<"omit_default", TRUE>> >>, << <<"serialize_by_alias", TRUE>>, <<"aliases", << <<"a", "A">> >> >> >> }
DP(t, ab, cfg) ==
  LET sm == Smp(t)
      fa == <<"a", t, Dflt(LastOf(sm)), <<>> >>
      fb == <<"b", t, <<"val", None>>, <<>> >>
  IN <<"dc", "DP",
       (IF ab THEN <<fa, fb>> ELSE <<fb, fa>>)
       \o << <<"c", <<"opt", t>>, Dflt(FirstOf(sm)), <<>> >>, <<"d", <<"opt", t>>, <<"val", None>>, <<>> >> >>,
       cfg>>
Classes == { DP(t, ab, cfg) : t \in SubjTypes, ab \in BOOLEAN, cfg \in Cfgs }

Init == T = <<"start">> /\ kind = "start"
Next == kind = "start" /\ T' \in Classes /\ kind' = "class"

\* the defaults are values of the annotated type (or None): the family is inside the supported grammar
DefaultsConform == kind = "class" => \A i \in DOMAIN DcFields(T) :
                     LET f == DcFields(T)[i] IN IsNone(FDflt(f)[2]) \/ Conforms(FType(f), FDflt(f)[2])
EmitInv == kind = "class" => PrintT(ToJson(<<"cls", T>>))
=============================================================================
