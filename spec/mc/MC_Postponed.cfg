CONSTANTS
  ParentMode = "lazy"
  InnerKind = "plain"
  Mech = "documented"
  MaxLen = 4
INIT Init
NEXT Next
INVARIANT Faithful
INVARIANT EmitInv
PROPERTY NoRealToStub
VIEW View
