------------------------------- MODULE MC_C11 -------------------------------
(***************************************************************************)
(* C11 -- Union, Optional and Literal resolution is deterministic and      *)
(* never swallows data.  Every ordered union of 2..MaxMembers distinct     *)
(* members over scalars, a date, a list, a dict, a dataclass and a nested  *)
(* Optional, bare and as a dataclass field, x the foreign-input universe   *)
(* and the wire forms of the members' own samples; Literal types over      *)
(* ints, strings, booleans, None, bytes and an enum member.                *)
(***************************************************************************)
EXTENDS Gen, Json, SequencesExt

CONSTANT MaxMembers
VARIABLES T, v, kind

PT == <<"dc", "P", << <<"x", <<"int">>, <<"req">>, <<>> >>, <<"y", <<"str">>, <<"val", S("d")>>, <<>> >> >>, <<>> >>
\* containers whose packer / unpacker also accepts text (a str is iterable) are members too
Members == { <<"int">>, <<"float">>, <<"bool">>, <<"str">>, <<"none">>, <<"date">>, <<"list", <<"int">> >>,
             <<"dict", <<"str">>, <<"int">> >>, PT, <<"vtuple", <<"str">> >>, <<"frozenset", <<"str">> >> }
Seqs(n) == { s \in [1..n -> Members] : \A i, j \in 1..n : i # j => s[i] # s[j] }
Unions == { <<"union", s>> : s \in UNION { Seqs(n) : n \in 2..MaxMembers } }
\* an enum whose class maps every unknown value to OTHER (_missing_): as a field type it accepts anything; a Literal that LISTS one
\* of its members accepts that member's VALUE only
KindE == <<"enum", "Kind", "Enum", << <<"CAT", S("cat")>>, <<"OTHER", S("other")>> >>, << <<"missing", "OTHER">> >> >>
MissingLits == { <<"literal", << <<"lenum", KindE, "OTHER">> >> >>, <<"literal", << <<"lenum", KindE, "CAT">>, S("none") >> >>,
                 <<"union", << <<"literal", << <<"lenum", KindE, "OTHER">> >> >>, <<"int">> >> >>, KindE }
MissingInputs == { S("cat"), S("other"), S("zebra"), S("CAT"), S("none"), I(3), None }
Literals == { <<"literal", << I(1), S("a") >> >>, <<"literal", << S("1"), I(1), B(TRUE) >> >>,
              <<"literal", << None, I(0) >> >>, <<"literal", << <<"bytes", <<1, 2>> >>, S("x") >> >>,
              <<"literal", << <<"lenum", Color, "RED">>, S("g") >> >>,
              <<"opt", <<"literal", << I(2), S("b") >> >> >> }
\* two unions over the SAME members in PERMUTED order inside one shape / one field: each position resolves in its own order
UP(a, b) == <<"union", <<a, b>> >>
PermBases == { << <<"int">>, <<"float">> >>, << <<"str">>, <<"date">> >>, << <<"int">>, <<"str">> >>, << <<"bool">>, <<"int">> >>, << <<"float">>, <<"str">> >> }
PermShapes == { <<"tuple", <<UP(p[1], p[2]), UP(p[2], p[1])>> >> : p \in PermBases }
              \cup { <<"tuple", <<UP(p[2], p[1]), UP(p[1], p[2])>> >> : p \in PermBases }
              \cup { UP(<<"list", UP(p[1], p[2])>>, <<"dict", <<"str">>, UP(p[2], p[1])>>) : p \in PermBases }
              \cup { <<"dc", "PP", << <<"f", UP(p[1], p[2]), <<"req">>, <<>> >>, <<"g", UP(p[2], p[1]), <<"req">>, <<>> >>,
                                      <<"h", <<"list", UP(p[1], p[2])>>, <<"fac", L(<<>>)>>, <<>> >>,
                                      <<"i", <<"list", UP(p[2], p[1])>>, <<"fac", L(<<>>)>>, <<>> >> >>, <<>> >> : p \in PermBases }
PermScalars == { S("1"), <<"float", 15, -1>>, S("2024-01-02"), B(TRUE), I(1), S("a") }
PermInputs == { L(<<x, x>>) : x \in PermScalars } \cup { L(<<x>>) : x \in PermScalars } \cup { Dct(<< <<S("k"), x>> >>) : x \in PermScalars }
              \cup { Dct(<< <<S("f"), x>>, <<S("g"), x>>, <<S("h"), L(<<x>>)>>, <<S("i"), L(<<x>>)>> >>) : x \in PermScalars }
\* TypeVar constraints: a field / shape annotated with T = TypeVar("T", A, B) means Union[A, B] in that order;
\* a bound TypeVar means its bound
TVarTypes == { <<"tvarc", "T", <<"union", s>> >> : s \in { q \in Seqs(2) : q[1][1] \in {"int", "str", "float", "date"} /\ q[2][1] \in {"int", "str", "bool", "list"} } }
             \cup { <<"tvarb", "T", b>> : b \in { <<"int">>, <<"date">>, <<"list", <<"int">> >>, PT } }
\* members whose constructors reject text with exceptions OUTSIDE the ValueError / TypeError families (decimal.InvalidOperation,
\* ZeroDivisionError, re.error, OverflowError): a rejecting member is skipped whatever it raised, the next member is tried
RaiseMembers == { <<"text", "decimal">>, <<"text", "fraction">>, <<"text", "pattern">> }
RaiseUnions == { <<"union", <<m, <<"str">> >> >> : m \in RaiseMembers } \cup { <<"union", <<m, <<"int">>, <<"str">> >> >> : m \in RaiseMembers }
               \cup { <<"union", <<m, <<"list", <<"int">> >> >> >> : m \in RaiseMembers }
               \cup { <<"union", << <<"int">>, <<"str">> >> >>, <<"union", << <<"int">>, <<"text", "decimal">>, <<"str">> >> >> }
RaiseInputs == { S("garbage"), S("1/0"), S("("), S("1.5"), S("1/3"), S("a+"), <<"fspecial", "inf">>, S("NaN"), S("Infinity"), L(<<I(1)>>) }
Types == Unions \cup Literals \cup TVarTypes \cup RaiseUnions \cup MissingLits
AllTypes == Types \cup { Holder(t) : t \in Types } \cup PermShapes \cup { Holder(t) : t \in { q \in PermShapes : q[1] = "tuple" } }

JScalars == { I(0), I(1), I(-7), <<"float", 15, -1>>, <<"float", 1, 0>>, B(TRUE), B(FALSE), None,
              S(""), S("a"), S("1"), S("1.5"), S("2024-01-02"), S("garbage"), S("r"), S("g"), S("AQI=\n"), S("x") }
JOther == { L(<<>>), L(<<I(1)>>), L(<<S("a"), I(2)>>), L(<<S("1")>>), Dct(<<>>), Dct(<< <<S("a"), I(1)>> >>),
            Dct(<< <<S("x"), I(1)>> >>), Dct(<< <<S("x"), S("bad")>> >>), Dct(<< <<S("f"), I(1)>> >>), Dct(<< <<S("f"), S("garbage")>>, <<S("g"), None>> >>),
            Dct(<< <<S("f"), L(<<I(1)>>)>> >>), Dct(<< <<S("f"), Dct(<< <<S("x"), I(3)>> >>)>> >>) }
J == JScalars \cup JOther

Init == T = <<"start">> /\ v = <<"nov">> /\ kind = "start"
Next == \/ kind = "start" /\ T' \in AllTypes /\ v' = v /\ kind' = "type"
        \/ kind = "type" /\ T' = T /\ v' \in Range(Smp(T)) /\ kind' = "value"
        \/ kind = "type" /\ T' = T /\ v' \in (IF T \in PermShapes THEN J \cup PermInputs ELSE J) /\ kind' = "input"
        \/ kind = "type" /\ (T \in MissingLits \/ (T[1] = "dc" /\ T[2] = "H" /\ FType(DcFields(T)[1]) \in MissingLits)) /\ T' = T
           /\ v' \in (IF T[1] = "dc" THEN { Dct(<< <<S("f"), x>> >>) : x \in MissingInputs } ELSE MissingInputs) /\ kind' = "input"
        \/ kind = "type" /\ (T \in RaiseUnions \/ (T[1] = "dc" /\ T[2] = "H" /\ FType(DcFields(T)[1]) \in RaiseUnions)) /\ T' = T
           /\ v' \in (IF T[1] = "dc" THEN { Dct(<< <<S("f"), x>> >>) : x \in RaiseInputs } ELSE RaiseInputs) /\ kind' = "input"
        \/ kind = "type" /\ T[1] = "dc" /\ T[2] = "H" /\ FType(DcFields(T)[1]) \in PermShapes /\ T' = T
           /\ v' \in { Dct(<< <<S("f"), L(<<x, x>>)>> >>) : x \in PermScalars } /\ kind' = "input"

Cx == DefaultCx
RECURSIVE Listify(_)
Listify(w) ==
  CASE w[1] = "bag"  -> L(LET s == SetToSeq(w[2]) IN [i \in DOMAIN s |-> Listify(s[i])])
    [] w[1] = "list" -> L([i \in DOMAIN w[2] |-> Listify(w[2][i])])
    [] w[1] = "dict" -> Dct([i \in DOMAIN w[2] |-> <<Listify(w[2][i][1]), Listify(w[2][i][2])>>])
    [] OTHER -> w
Wire == Pack(T, Cx, v)
Back == Unpack(T, Cx, Listify(Wire))
Dec == Unpack(T, Cx, v)

\* ---- model theorems
\* a null member matches only null: a non-null input never becomes None through a union
U == IF T[1] = "dc" THEN FType(DcFields(T)[1]) ELSE T
NullOnlyNull == (kind = "input" /\ T[1] \in {"union", "tvarc"} /\ IsOk(Dec)) => (IsNone(Dec[2]) => IsNone(v))
\* no cross-coercion when the exact type is a scalar member AND no earlier non-scalar member accepts it
ExactUnchanged ==
  (kind = "input" /\ T[1] = "union" /\ v[1] \in {"int", "float", "bool", "str", "none"} /\ IsOk(Dec)) =>
     LET ms == T[2]
         pos == { i \in DOMAIN ms : ScalarT(ms[i]) /\ ExactIs(ms[i], v) } IN
     (pos # {} /\ \A i \in DOMAIN ms : (\A p \in pos : i < p) => (ScalarT(ms[i]) \/ ~IsOk(Unpack(ms[i], Cx, v))))
        => Dec[2] = v
\* results are well typed
WellTyped == (kind = "input" /\ IsOk(Dec)) => Conforms(T, Dec[2])
\* Literal returns a listed constant
LiteralListed == (kind = "input" /\ T[1] = "literal" /\ IsOk(Dec)) => Conforms(T, Dec[2])

EmitInv == /\ kind = "value" => PrintT(ToJson(<<"vec", T, v, Wire, Back>>))
           /\ kind = "input" => PrintT(ToJson(<<"inp", T, v, Dec>>))
=============================================================================
