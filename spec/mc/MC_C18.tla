------------------------------- MODULE MC_C18 -------------------------------
(***************************************************************************)
(* C18 -- no hidden sharing or mutation.  Shapes over int / str / date     *)
(* leaves with lists, dicts, sets, tuples, Optional, nested collections as *)
(* fields of a dataclass whose Config.dialect lists no_copy_collections    *)
(* N subset of {list, dict, set} (N = {} is the default dialect).          *)
(***************************************************************************)
EXTENDS Heap, Gen, Json

VARIABLES T, v, kind, prior      \* prior: what was called on the same class, with the same dialect object, BEFORE the judged to_dict

Leaf3 == { <<"int">>, <<"str">>, <<"date">>, <<"any">> }
L1 == { <<"list", e>> : e \in Leaf3 } \cup { <<"dict", <<"str">>, e>> : e \in Leaf3 } \cup { <<"set", e>> : e \in Leaf3 \ { <<"any">> } }
      \cup { <<c, <<"str">>, e>> : c \in {"chainmap", "odict", "ddict"}, e \in { <<"int">>, <<"date">> } }
      \cup { <<"deque", e>> : e \in { <<"int">>, <<"date">> } } \cup { <<"counter", <<"str">> >> }
L2 == { <<"list", e>> : e \in L1 } \cup { <<"dict", <<"str">>, e>> : e \in L1 } \cup { <<"opt", e>> : e \in L1 } \cup { <<"tuple", <<e, <<"int">> >> >> : e \in L1 }
\* unions with container members (typed elements, Any elements): the member's container is a typed container of the result
UShapes == { <<"union", << <<"int">>, <<"list", <<"any">> >> >> >>, <<"union", << <<"str">>, <<"dict", <<"str">>, <<"any">> >> >> >>,
             <<"union", << <<"list", <<"int">> >>, <<"dict", <<"str">>, <<"int">> >> >> >>, <<"union", << <<"int">>, <<"list", <<"str">> >> >> >>,
             <<"list", <<"union", << <<"int">>, <<"list", <<"any">> >> >> >> >>, <<"opt", <<"union", << <<"bool">>, <<"dict", <<"str">>, <<"any">> >> >> >> >> }
\* user classes implementing SerializableType(use_annotations=True) that hand out a container they keep holding
SShapes == { <<"stype", "SW", <<"list", <<"str">> >> >>, <<"stype", "SW", <<"dict", <<"str">>, <<"list", <<"int">> >> >> >>,
             <<"list", <<"stype", "SW", <<"list", <<"int">> >> >> >>, <<"opt", <<"stype", "SW", <<"dict", <<"str">>, <<"str">> >> >> >> }
Shapes == L1 \cup L2 \cup UShapes \cup SShapes
NSets == SUBSET {"list", "dict", "set"}
ClassFor(t, n, plain) ==
  <<"dc", "K", << <<"f", t, <<"req">>, <<>> >>, <<"g", <<"list", <<"int">> >>, <<"fac", L(<<I(1)>>)>>, <<>> >> >>,
    (IF n # {} THEN << <<"dialect", << <<"name", "NC">>, <<"no_copy", n>> >> >> >> ELSE <<>>)
    \o (IF plain THEN << <<"mixin", "plain">> >> ELSE <<>>) >>

\* history families: a format mixin that enabled dialect support; the judged call is to_dict(dialect=DD) AFTER
\* to_msgpack(dialect=DD) / to_jsonb(dialect=DD) (whose FORMAT dialects list no_copy_collections = (list, dict)):
\* what to_dict shares is a function of class, dialect and value only
Priors == {"fresh", "msgpack", "orjson"}
DD == << <<"name", "DD">>, <<"omit_none", TRUE>> >>
ClassHist(t, n, fmt) ==
  <<"dc", "K", << <<"f", t, <<"req">>, <<>> >>, <<"g", <<"list", <<"int">> >>, <<"fac", L(<<I(1)>>)>>, <<>> >> >>,
    (IF n # {} THEN << <<"dialect", << <<"name", "NC">>, <<"no_copy", n>> >> >> >> ELSE <<>>)
    \o << <<"mixin", fmt>>, <<"flags", {"dialect_flag"}>> >> >>
\* a holder compiled at its FIRST call (lazy) that opted in to dialects and nests a PLAIN dataclass: the first call passes a
\* dialect listing no_copy_collections, the JUDGED call is the plain to_dict() afterwards -- with the default dialect nothing is shared,
\* whatever dialect the nested class happened to be compiled under first
NCD == << <<"name", "NCD">>, <<"no_copy", {"list", "dict"}>> >>
PlainIn(t) == <<"dc", "PIn", << <<"f", t, <<"req">>, <<>> >>, <<"g", <<"list", <<"int">> >>, <<"fac", L(<<I(1)>>)>>, <<>> >> >>, << <<"mixin", "plain">> >> >>
ClassNest(t, lazy) ==
  <<"dc", "K", << <<"inner", PlainIn(t), <<"req">>, <<>> >>, <<"more", <<"list", PlainIn(t)>>, <<"fac", L(<<>>)>>, <<>> >> >>,
    << <<"flags", {"dialect_flag"}>> >> \o (IF lazy THEN << <<"lazy", TRUE>> >> ELSE <<>>) >>
HistShapes == { <<"list", e>> : e \in Leaf3 } \cup { <<"dict", <<"str">>, e>> : e \in Leaf3 } \cup { <<"list", <<"list", <<"int">> >> >>, <<"opt", <<"dict", <<"str">>, <<"str">> >> >> }

\* Any positions hold scalars only (the statement excepts Any / pass_through positions)
ScalarAny(x) == TRUE

Init == T = <<"start">> /\ v = <<"nov">> /\ kind = "start" /\ prior = "fresh"
Next == \/ kind = "start" /\ \E t \in Shapes, n \in NSets, p \in BOOLEAN : T' = ClassFor(t, n, p) /\ v' = v /\ kind' = "type" /\ prior' = "fresh"
        \/ kind = "start" /\ \E t \in HistShapes, n \in {{}, {"list"}}, f \in Priors \ {"fresh"} : T' = ClassHist(t, n, f) /\ v' = v /\ kind' = "type" /\ prior' = f
        \/ kind = "start" /\ \E t \in HistShapes, lz \in BOOLEAN : T' = ClassNest(t, lz) /\ v' = v /\ kind' = "type" /\ prior' = "nocopy"
        \/ kind = "type" /\ T' = T /\ v' \in Range(Smp(T)) /\ kind' = "value" /\ prior' = prior

Cx == IF prior \in {"fresh", "nocopy"} THEN DefaultCx ELSE [DefaultCx EXCEPT !.dlct = DD]
Wire == Pack(T, Cx, v)
Shared == SharedPaths(T, Cx, v, <<>>)

\* ---- model theorems
\* with the default dialect nothing is shared
DefaultSharesNothing == (kind = "value" /\ ~HasOpt(DcCfg(T), "dialect")) => Shared = {}     \* also after any prior format call
\* what is shared is always a listed collection type (or sits inside one)
OnlyListed ==
  kind = "value" => \A p \in Shared : \E q \in Shared : /\ Len(q) <= Len(p) /\ SubSeq(p, 1, Len(q)) = q
                                                         /\ LET n == GetOpt(GetOpt(DcCfg(T), "dialect", <<>>), "no_copy", {}) IN n # {}

EmitInv == kind = "value" => PrintT(ToJson(<<"share", T, v, Wire, Shared, AnyPaths(T, v, <<>>), prior, IF prior = "fresh" THEN <<>> ELSE IF prior = "nocopy" THEN NCD ELSE DD>>))
=============================================================================
