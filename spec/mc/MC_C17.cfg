CONSTANTS
  Units = {"u1", "u2"}
  Objects = {"k1", "k2", "loc", "en"}
  NameOf <- MCNameOf
  Mode = "fresh"
  MaxRefs = 4
INIT Init
NEXT Next
INVARIANT Closed
INVARIANT BoundByIdentity
