CONSTANTS
  ClassOf <- MCClassOf
  ParentOf <- MCParentOf
  Names <- MCNames
  DialectOf <- MCDialectOf
  DNames <- MCDNames
  ValueOf <- MCValueOf
  InputOf <- MCInputOf
  MaxLen = 5
  CacheMode = "own"
  Codecs = FALSE
  Lazy = TRUE
  FmtsOf <- MCFmtsOf
  KwNames <- MCKwNames
  SpecKeyMode = "exact"
INIT Init
NEXT Next
INVARIANT Faithful
INVARIANT CacheOwn
INVARIANT EmitTables
INVARIANT EmitInv
