CONSTANTS
  Thr = {1, 2, 3}
  Tags = {"a", "b"}
  Refill = "add"
INIT Init
NEXT Next
INVARIANT Faithful
PROPERTY Monotone
CHECK_DEADLOCK FALSE
