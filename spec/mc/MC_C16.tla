------------------------------- MODULE MC_C16 -------------------------------
(***************************************************************************)
(* C16: every string over an adversarial alphabet, at every position a      *)
(* schema can supply one.  Level 1: the lexing theorems.  Level 2: one      *)
(* class per (position, string) with the expected serialization by alias    *)
(* and the expected deserialization from that key (reference Pack/Unpack).  *)
(***************************************************************************)
EXTENDS Quote, Discr, Json

CONSTANTS MaxLen        \* strings of length <= MaxLen are emitted as implementation tests
VARIABLES s, pos, kind

Alphabet == <<SQ, "\"", BS, "n", LF, "{", "}", "%", "a", "é", "💰">>      \* incl. a code point outside the BMP
Strs(n) == UNION { [1..k -> Range(Alphabet)] : k \in 0..n }
Payloads == { <<"x", SQ, "]", " ", "=", " ", "_", "_", "v", "(", ")", " ", "#">>,
              <<"a", SQ, ")", ";", "_", "_", "v", "(", ")", "#">>,
              <<BS>>, <<"a", BS>>, <<"{", "0", "}">>, <<"%", "s">> }
\* the alias positions are crossed with the emission paths of to_dict: the single dict literal ("alias"), the per-field
\* kwargs[...] assignments (omit_none with a converted Optional field: "aliasopt"; omit_default: "aliasdflt") and the
\* by_alias keyword of TO_DICT_ADD_BY_ALIAS_FLAG ("aliasflag": called as to_dict(by_alias=True))
Positions == {"alias", "aalias", "cfgalias", "tdkey", "forbid", "literal", "enumvalue", "discrfield", "allowname", "aliasopt", "aliasdflt", "aliasflag", "discrcfg", "literalpair", "discrpair", "genlit"}

\* ---- level 1: lexing theorems over all strings of length <= 4
ReprSafe   == kind = "start" => \A x \in Strs(4) : Denotes(Repr(x), x)
RawSafeWhenPlain == kind = "start" => \A x \in Strs(4) : ~NeedsEscaping(x) => Denotes(Raw(x), x)
\* the deviant emission (raw splicing) is refuted: a quote, a backslash, a newline or an escape sequence changes or breaks the program
RawSpliceRefuted == kind = "start" =>
                    /\ ~Denotes(Raw(<<SQ>>), <<SQ>>) /\ ~Denotes(Raw(<<BS>>), <<BS>>) /\ ~Denotes(Raw(<<LF>>), <<LF>>)
                    /\ ~Denotes(Raw(<<BS, "n">>), <<BS, "n">>) /\ ~Denotes(Raw(<<"a", SQ, "b">>), <<"a", SQ, "b">>)
                    /\ \A x \in Strs(3) : (\E i \in DOMAIN x : x[i] = SQ /\ (i = 1 \/ x[i - 1] # BS)) => ~Denotes(Raw(x), x)

\* ---- level 2: classes
\* two sibling Literal types in one class whose strings differ ONLY in characters outside [A-Za-z0-9_] (or, for a plain string,
\* by a trailing underscore): each field accepts exactly its own string, whatever identifier a generated helper is filed under
WordChars == {"n", "a", "é", "_"}
Sib(x) == IF \A i \in DOMAIN x : x[i] \in WordChars THEN x \o <<"_">> ELSE [i \in DOMAIN x |-> IF x[i] \in WordChars THEN x[i] ELSE "_"]
SibStr == Join(Sib(s))
RootD(str) == <<"dc", "R", << <<"v", <<"int">>, <<"req">>, <<>> >> >>, <<>> >>
SubD(str)  == <<"dc", "A", << <<"v", <<"int">>, <<"req">>, <<>> >> >>, << <<"bases", <<RootD(str)>> >>, <<"classvars", << <<str, S("a")>> >> >> >> >>
\* class-level discriminator (Config.discriminator) together with forbid_extra_keys: the field name is an accepted key
DOptsC(str) == << <<"field", str>>, <<"include_subtypes", TRUE>> >>
RootC(str) == <<"dc", "R", << <<"v", <<"int">>, <<"req">>, <<>> >> >>,
                << <<"discriminator", DOptsC(str)>>, <<"forbid_extra_keys", TRUE>>, <<"discr_field", str>> >> >>
SubC(str)  == <<"dc", "A", << <<"v", <<"int">>, <<"req">>, <<>> >> >>,
                << <<"bases", <<RootC(str)>> >>, <<"classvars", << <<str, S("a")>> >> >>, <<"forbid_extra_keys", TRUE>>, <<"discr_field", str>>, <<"no_config", TRUE>> >> >>
\* a second hierarchy R2 / A2 discriminated by the SIBLING string: two discriminated positions with different field names in ONE class
RootE == <<"dc", "R2", << <<"v", <<"int">>, <<"req">>, <<>> >> >>, <<>> >>
SubE  == <<"dc", "A2", << <<"v", <<"int">>, <<"req">>, <<>> >> >>, << <<"bases", <<RootE>> >>, <<"classvars", << <<SibStr, S("a")>> >> >> >> >>
\* LONG Literal strings (a common 85-character prefix, the schema-supplied string, one last character) as the type arguments of
\* ONE generic dataclass inside one holder: each specialisation accepts and emits exactly its own string
P85 == "xxxxxxxxxxxxxxxxxxxxxxxxxxxxxxxxxxxxxxxxxxxxxxxxxxxxxxxxxxxxxxxxxxxxxxxxxxxxxxxxxxxxx"
LongA(str) == P85 \o str \o "1"
LongB(str) == P85 \o str \o "2"
GBoxL(x) == <<"dc", "Box", << <<"v", <<"literal", << S(x) >> >>, <<"req">>, <<>> >> >>,
              << <<"mixin", "plain">>, <<"generic", << <<"T">>, << <<"literal", << S(x) >> >> >>, << <<"v", <<"tvar", "T">> >> >> >> >> >> >>
F(t, dflt, opts) == <<"f", t, dflt, opts>>
ClassAt(p, str) ==
  CASE p = "alias"    -> <<"dc", "K", << F(<<"int">>, <<"req">>, << <<"alias", str>> >>) >>, << <<"serialize_by_alias", TRUE>> >> >>
    [] p = "aalias"   -> <<"dc", "K", << F(<<"int">>, <<"req">>, << <<"aalias", str>> >>) >>, << <<"serialize_by_alias", TRUE>> >> >>
    [] p = "cfgalias" -> <<"dc", "K", << F(<<"int">>, <<"req">>, <<>>) >>, << <<"serialize_by_alias", TRUE>>, <<"aliases", << <<"f", str>> >> >> >> >>
    [] p = "allowname" -> <<"dc", "K", << F(<<"int">>, <<"req">>, << <<"alias", str>> >>) >>,
                            << <<"serialize_by_alias", TRUE>>, <<"allow_deserialization_not_by_alias", TRUE>> >> >>
    [] p = "aliasopt" -> <<"dc", "K", << F(<<"opt", <<"date">> >>, <<"val", None>>, << <<"alias", str>> >>),
                                          <<"g", <<"opt", <<"int">> >>, <<"val", None>>, <<>> >> >>,
                            << <<"serialize_by_alias", TRUE>>, <<"omit_none", TRUE>> >> >>
    [] p = "aliasdflt" -> <<"dc", "K", << F(<<"int">>, <<"val", I(0)>>, << <<"aalias", str>> >>),
                                           <<"g", <<"int">>, <<"val", I(1)>>, <<>> >> >>,
                            << <<"serialize_by_alias", TRUE>>, <<"omit_default", TRUE>> >> >>
    [] p = "aliasflag" -> <<"dc", "K", << F(<<"int">>, <<"req">>, <<>>) >>, << <<"flags", {"by_alias_flag"}>>, <<"aliases", << <<"f", str>> >> >> >> >>
    [] p = "forbid"   -> <<"dc", "K", << F(<<"int">>, <<"req">>, << <<"alias", str>> >>) >>, << <<"serialize_by_alias", TRUE>>, <<"forbid_extra_keys", TRUE>> >> >>
    [] p = "tdkey"    -> <<"dc", "K", << F(<<"tdict", "TD", << <<str, <<"int">>, TRUE>> >> >>, <<"req">>, <<>>) >>, <<>> >>
    [] p = "literal"  -> <<"dc", "K", << F(<<"literal", << S(str), S("other") >> >>, <<"req">>, <<>>) >>, <<>> >>
    [] p = "literalpair" -> <<"dc", "K", << F(<<"literal", << S(str) >> >>, <<"req">>, <<>>),
                                             <<"g", <<"literal", << S(SibStr) >> >>, <<"req">>, <<>> >> >>, <<>> >>
    [] p = "enumvalue" -> <<"dc", "K", << F(<<"enum", "E", "Enum", << <<"M", S(str)>>, <<"N", S("other")>> >> >>, <<"req">>, <<>>) >>, <<>> >>
    [] p = "discrcfg" -> RootC(str)
    [] p = "genlit" -> <<"dc", "K", << F(GBoxL(LongA(str)), <<"req">>, <<>>), <<"g", GBoxL(LongB(str)), <<"req">>, <<>> >> >>, <<>> >>
    [] p = "discrpair" -> <<"dc", "K", << F(<<"discr", RootD(str), << <<"field", str>>, <<"include_subtypes", TRUE>> >> >>, <<"req">>, <<>>),
                                           <<"g", <<"discr", RootE, << <<"field", SibStr>>, <<"include_subtypes", TRUE>> >> >>, <<"req">>, <<>> >> >>, <<>> >>
    [] p = "discrfield" -> <<"dc", "K", << F(<<"discr", RootD(str), << <<"field", str>>, <<"include_subtypes", TRUE>> >> >>, <<"req">>, <<>>) >>, <<>> >>

ValueAt(p, str) ==
  CASE p \in {"alias", "aalias", "cfgalias", "forbid", "allowname", "aliasflag"} -> <<"obj", "K", <<I(7)>> >>
    [] p = "aliasopt" -> <<"obj", "K", << <<"date", 2024, 1, 2>>, None>> >>
    [] p = "aliasdflt" -> <<"obj", "K", <<I(7), I(1)>> >>
    [] p = "tdkey" -> <<"obj", "K", << Dct(<< <<S(str), I(7)>> >>) >> >>
    [] p = "literal" -> <<"obj", "K", << S(str) >> >>
    [] p = "literalpair" -> <<"obj", "K", << S(str), S(SibStr) >> >>
    [] p = "enumvalue" -> <<"obj", "K", << <<"enum", "E", "M">> >> >>
    [] p = "discrfield" -> <<"obj", "K", << <<"obj", "A", <<I(0)>> >> >> >>
    [] p = "discrpair" -> <<"obj", "K", << <<"obj", "A", <<I(0)>> >>, <<"obj", "A2", <<I(5)>> >> >> >>
    [] p = "genlit" -> <<"obj", "K", << <<"obj", "Box", <<S(LongA(str))>> >>, <<"obj", "Box", <<S(LongB(str))>> >> >> >>
    [] p = "discrcfg" -> <<"obj", "A", <<I(0)>> >>

Init == s = <<>> /\ pos = "none" /\ kind = "start"
Next == kind = "start" /\ s' \in Strs(MaxLen) \cup Payloads /\ pos' \in Positions /\ kind' = "case"

Str == Join(s)
T == ClassAt(pos, Str)
Cx == IF pos = "aliasflag" THEN [DefaultCx EXCEPT !.by_alias = "yes"] ELSE DefaultCx
Wire == IF pos \in {"discrfield", "discrcfg", "discrpair"} THEN <<"skip">> ELSE Pack(T, Cx, ValueAt(pos, Str))
Input == IF pos = "discrcfg" THEN Dct(<< <<S("v"), I(0)>>, <<S(Str), S("a")>> >>)
         ELSE IF pos = "discrpair"
         THEN Dct(<< <<S("f"), Dct(<< <<S("v"), I(0)>>, <<S(Str), S("a")>> >>)>>, <<S("g"), Dct(<< <<S("v"), I(5)>>, <<S(SibStr), S("a")>> >>)>> >>)
         ELSE IF pos = "discrfield"
         THEN Dct(<< <<S("f"), Dct(<< <<S("v"), I(0)>>, <<S(Str), S("a")>> >>)>> >>)
         ELSE Wire
Dec == IF pos = "discrcfg" THEN UnpackDiscr(<<SubC(Str)>>, RootC(Str), DOptsC(Str), Cx, Input)
       ELSE IF pos = "discrpair"
       THEN LET r1 == UnpackDiscr(<<SubD(Str)>>, RootD(Str), << <<"field", Str>>, <<"include_subtypes", TRUE>> >>, Cx, Input[2][1][2])
                r2 == UnpackDiscr(<<SubE>>, RootE, << <<"field", SibStr>>, <<"include_subtypes", TRUE>> >>, Cx, Input[2][2][2]) IN
            IF IsOk(r1) /\ IsOk(r2) THEN Ok(<<"obj", "K", <<r1[2], r2[2]>> >>) ELSE IF IsOk(r1) THEN r2 ELSE r1
       ELSE IF pos = "discrfield"
       THEN LET r == UnpackDiscr(<<SubD(Str)>>, RootD(Str), << <<"field", Str>>, <<"include_subtypes", TRUE>> >>, Cx, Input[2][1][2]) IN
            IF IsOk(r) THEN Ok(<<"obj", "K", <<r[2]>> >>) ELSE r
       ELSE Unpack(T, Cx, Input)

\* the key / value used at the position is exactly the string
ExactlyTheString ==
  kind = "case" =>
    CASE pos \in {"alias", "aalias", "cfgalias", "forbid", "allowname", "aliasflag", "aliasdflt"} -> Wire = Dct(<< <<S(Str), I(7)>> >>)
      [] pos = "aliasopt" -> Wire = Dct(<< <<S(Str), S("2024-01-02")>> >>)
      [] pos = "tdkey" -> Wire = Dct(<< <<S("f"), Dct(<< <<S(Str), I(7)>> >>)>> >>)
      [] pos \in {"literal", "enumvalue"} -> Wire = Dct(<< <<S("f"), S(Str)>> >>)
      [] pos = "discrpair" -> Dec = Ok(ValueAt(pos, Str))
      [] pos = "genlit" -> Dec = Ok(ValueAt(pos, Str)) /\ Wire = Dct(<< <<S("f"), Dct(<< <<S("v"), S(LongA(Str))>> >>)>>, <<S("g"), Dct(<< <<S("v"), S(LongB(Str))>> >>)>> >>)          \* each position dispatches on ITS OWN field name
      [] pos = "literalpair" -> Wire = Dct(<< <<S("f"), S(Str)>>, <<S("g"), S(SibStr)>> >>) /\ Dec = Ok(ValueAt(pos, Str))
      [] OTHER -> TRUE

EmitInv == kind = "case" => PrintT(ToJson(<<"quote", pos, Str, T, ValueAt(pos, Str), Wire, Input, Dec, IF pos = "discrfield" THEN SubD(Str) ELSE IF pos = "discrcfg" THEN SubC(Str) ELSE IF pos = "discrpair" THEN <<"tuple", <<SubD(Str), SubE>> >> ELSE <<>> >>))
=============================================================================
