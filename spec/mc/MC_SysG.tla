------------------------------- MODULE MC_SysG -------------------------------
(***************************************************************************)
(* Model of sys/Mashumaro.tla for C14 with a GENERIC nested dataclass:     *)
(*   Box[T] (plain, generic: v: T, vs: List[T]),                           *)
(*   GI  holds Box[Union[int, str]],   GS holds Box[Union[str, int]],      *)
(*   GD  holds Box[date] and Box[Union[int, str]] (two specialisations in  *)
(*   one class), each holder lazily or eagerly compiled.                   *)
(* The two unions compare equal in Python but are different types: a       *)
(* float input is coerced by the FIRST member.  Every order of definition  *)
(* and first use must give the outcome of a fresh family.                  *)
(***************************************************************************)
EXTENDS Mashumaro

CONSTANTS Lazy

U(a, b) == <<"union", <<a, b>> >>
TV == <<"tvar", "T">>
Box(arg) == <<"dc", "Box", << <<"v", arg, <<"req">>, <<>> >>, <<"vs", <<"list", arg>>, <<"fac", L(<<>>)>>, <<>> >> >>,
              << <<"mixin", "plain">>, <<"generic", << <<"T">>, <<arg>>, << <<"v", TV>>, <<"vs", <<"list", TV>> >> >> >> >> >> >>
LazyOpt == IF Lazy THEN << <<"lazy", TRUE>> >> ELSE <<>>
IS == U(<<"int">>, <<"str">>)
SI == U(<<"str">>, <<"int">>)
GI == <<"dc", "GI", << <<"b", Box(IS), <<"req">>, <<>> >> >>, LazyOpt>>
GS == <<"dc", "GS", << <<"b", Box(SI), <<"req">>, <<>> >> >>, LazyOpt>>
GD == <<"dc", "GD", << <<"d", Box(<<"date">>), <<"req">>, <<>> >>, <<"b", <<"opt", Box(IS)>>, <<"val", None>>, <<>> >> >>, LazyOpt>>

MCClassOf(n) == CASE n = "GI" -> GI [] n = "GS" -> GS [] n = "GD" -> GD
MCParentOf(n) == "#none"
MCNames == {"GI", "GS", "GD"}
MCDialectOf(d) == <<>>
MCDNames == {"none"}
MCFmtsOf(n) == {"dict"}
MCKwNames == {"none"}
BoxV(a, b) == <<"obj", "Box", <<a, L(<<b>>)>> >>
MCValueOf(n) ==
  CASE n = "GI" -> <<"obj", "GI", <<BoxV(I(1), S("a"))>> >>
    [] n = "GS" -> <<"obj", "GS", <<BoxV(S("b"), I(2))>> >>
    [] n = "GD" -> <<"obj", "GD", <<BoxV(<<"date", 2024, 2, 28>>, <<"date", 2023, 2, 28>>), BoxV(S("c"), I(3))>> >>
\* neither member matches a float or a bool exactly: the declaration order decides
BoxJ(a, b) == Dct(<< <<S("v"), a>>, <<S("vs"), L(<<b>>)>> >>)
MCInputOf(n) ==
  CASE n = "GI" -> Dct(<< <<S("b"), BoxJ(<<"float", 25, -1>>, B(TRUE))>> >>)
    [] n = "GS" -> Dct(<< <<S("b"), BoxJ(<<"float", 25, -1>>, B(TRUE))>> >>)
    [] n = "GD" -> Dct(<< <<S("d"), BoxJ(S("2024-02-28"), S("2023-02-28"))>>, <<S("b"), BoxJ(<<"float", 15, -1>>, <<"float", 2, 0>>)>> >>)
=============================================================================
