INIT Init
NEXT Next
INVARIANT NothingElseDiffers
INVARIANT EmitInv
