------------------------------- MODULE MC_C09 -------------------------------
(***************************************************************************)
(* C09 -- input keys are resolved by the documented alias rules.           *)
(* Exhaustive: every assignment of the three alias sources (field          *)
(* metadata, Annotated Alias, Config.aliases) to field a, two sources for  *)
(* field b, (allow_deserialization_not_by_alias, forbid_extra_keys) in     *)
(* {F,T}^2, and EVERY subset of the candidate keys {names, each source's   *)
(* alias, a stranger} present in the input.  Each key carries a distinct   *)
(* value, so the result names the key that was read.                       *)
(***************************************************************************)
EXTENDS Gen, Json

VARIABLES T, v, kind

Srcs == {"alias", "aalias", "cfg"}
AliasName(f, s) == f \o "_" \o s
Candidates == <<"a", "b", "a_alias", "a_aalias", "a_cfg", "b_alias", "b_cfg", "zz", "g_a">>
KeyVal(i) == I(10 + i)

FieldOpts(f, Z) == (IF "alias" \in Z THEN << <<"alias", AliasName(f, "alias")>> >> ELSE <<>>)
                   \o (IF "aalias" \in Z THEN << <<"aalias", AliasName(f, "aalias")>> >> ELSE <<>>)
CfgAliases(Sa, Sb) == (IF "cfg" \in Sa THEN << <<"a", "a_cfg">> >> ELSE <<>>) \o (IF "cfg" \in Sb THEN << <<"b", "b_cfg">> >> ELSE <<>>)

\* field a is typed int (converted) or Any (passed through untouched: a different code path reads the key)
\* shadow: "none" | "plain" (a's alias is b's NAME, b unaliased) | "chain" (a -> "b", b -> "b_alias": b's name is no longer
\* a key of b but IS the key of a) | "swap" (a -> "b", b -> "a")
ShadowAliases(shadow) == CASE shadow = "plain" -> << <<"a", "b">> >>
                           [] shadow = "chain" -> << <<"a", "b">> >>
                           [] shadow = "swap"  -> << <<"a", "b">>, <<"b", "a">> >>
                           [] OTHER -> <<>>
ClassT(Sa, Sb, allow, forbid, shadow, ta) ==
  <<"dc", "K",
    << <<"a", ta, <<"req">>, FieldOpts("a", Sa)>>,
       <<"b", <<"int">>, <<"val", I(0)>>, FieldOpts("b", Sb)>> >>,
    (IF CfgAliases(Sa, Sb) # <<>> \/ shadow # "none" THEN << <<"aliases", IF shadow # "none" THEN ShadowAliases(shadow) ELSE CfgAliases(Sa, Sb)>> >> ELSE <<>>)
    \o (IF allow THEN << <<"allow_deserialization_not_by_alias", TRUE>> >> ELSE <<>>)
    \o (IF forbid THEN << <<"forbid_extra_keys", TRUE>> >> ELSE <<>>) >>

Class(Sa, Sb, allow, forbid, shadow) == ClassT(Sa, Sb, allow, forbid, shadow, <<"int">>)
Classes == { ClassT(Sa, Sb, al, fo, "none", ta) : Sa \in SUBSET Srcs, Sb \in SUBSET {"alias", "cfg"}, al \in BOOLEAN, fo \in BOOLEAN, ta \in { <<"int">>, <<"any">> } }
           \cup { Class({}, {}, al, fo, "plain") : al \in BOOLEAN, fo \in BOOLEAN }     \* a's alias shadows b's name
           \cup { ClassT({}, {"alias"}, al, fo, "chain", ta) : al \in BOOLEAN, fo \in BOOLEAN, ta \in { <<"int">>, <<"any">> } }
           \cup { ClassT({}, {}, al, fo, "swap", ta) : al \in BOOLEAN, fo \in BOOLEAN, ta \in { <<"int">>, <<"any">> } }
           \* K(M3(G3)): the grandparent declared both fields with other aliases ("g_a", "g_b"); the middle class's are in effect
           \cup { Chain3(ClassT(Sa, Sb, al, fo, "none", <<"int">>)) : Sa \in SUBSET {"alias", "aalias"}, Sb \in SUBSET {"alias"}, al \in BOOLEAN, fo \in BOOLEAN }

\* ---- two SIBLING classes that inherit ONE Config object from a base model (Config.aliases = {id: ident}).  Group gives its
\* field "a" a field-level alias, User declares a plain "a": an alias belongs to the field that declares it -- whichever sibling
\* is compiled first (both declaration orders of the holder), and with either kind of field-level source.
ShCfg(al, fo) == << <<"aliases", << <<"id", "ident">> >> >> >>
                 \o (IF al THEN << <<"allow_deserialization_not_by_alias", TRUE>> >> ELSE <<>>)
                 \o (IF fo THEN << <<"forbid_extra_keys", TRUE>> >> ELSE <<>>)
IdF == <<"id", <<"int">>, <<"val", I(0)>>, <<>> >>
BaseM(al, fo) == <<"dc", "BaseM", <<IdF>>, ShCfg(al, fo)>>
Sib(name, fopts, al, fo) == <<"dc", name, <<IdF, <<"a", <<"int">>, <<"val", I(1)>>, fopts>> >>,
                              ShCfg(al, fo) \o << <<"bases", <<BaseM(al, fo)>> >>, <<"no_config", TRUE>> >> >>
SibHolder(src, al, fo, groupFirst) ==
  LET g == <<"g", Sib("Group", << <<src, "a_" \o src>> >>, al, fo), <<"req">>, <<>> >>
      u == <<"u", Sib("User", <<>>, al, fo), <<"req">>, <<>> >>
  IN <<"dc", "SH", IF groupFirst THEN <<g, u>> ELSE <<u, g>>, <<>> >>
SibHolders == { SibHolder(src, al, fo, gf) : src \in {"alias", "aalias"}, al \in BOOLEAN, fo \in BOOLEAN, gf \in BOOLEAN }
SibCand == <<"a", "a_alias", "a_aalias", "id", "ident">>
SibPart(K) == LET idx == SelectSeq([i \in DOMAIN SibCand |-> i], LAMBDA i : i \in K) IN
              Dct([n \in DOMAIN idx |-> <<S(SibCand[idx[n]]), KeyVal(idx[n])>>])
SibInputs == { Dct(<< <<S("g"), SibPart(Kg)>>, <<S("u"), SibPart(Ku)>> >>) : Kg \in SUBSET (DOMAIN SibCand), Ku \in SUBSET (DOMAIN SibCand) }

\* ---- a field declared init=False (computed in __post_init__) is not part of the input at all: neither its name nor its alias
\* is an accepted key, with or without allow_deserialization_not_by_alias, and its value is never read
NCand == <<"a", "b", "c", "c_alias", "zz">>
ClassN(al, fo, calias) ==
  <<"dc", "KN",
    << <<"a", <<"int">>, <<"req">>, <<>> >>,
       <<"b", <<"int">>, <<"val", I(0)>>, << <<"alias", "b_alias">> >> >>,
       <<"c", <<"int">>, <<"val", I(3)>>, << <<"init", FALSE>> >> \o (IF calias THEN << <<"alias", "c_alias">> >> ELSE <<>>)>> >>,
    (IF al THEN << <<"allow_deserialization_not_by_alias", TRUE>> >> ELSE <<>>) \o (IF fo THEN << <<"forbid_extra_keys", TRUE>> >> ELSE <<>>) >>
NClasses == { ClassN(al, fo, ca) : al \in BOOLEAN, fo \in BOOLEAN, ca \in BOOLEAN }
NInputs == { Dct(LET idx == SelectSeq([i \in DOMAIN NCand |-> i], LAMBDA i : i \in K) IN
                 [n \in DOMAIN idx |-> <<S(NCand[idx[n]]), KeyVal(idx[n])>>] \o << <<S("b_alias"), I(77)>> >>) : K \in SUBSET (DOMAIN NCand) }

\* ---- a variant of a hierarchy with a CLASS-LEVEL discriminator (Config.discriminator on the base, the tag a class variable of
\* the variant): the discriminator field is an accepted key of the variant, with every combination of forbid_extra_keys and
\* allow_deserialization_not_by_alias
KOpts == << <<"field", "kind">>, <<"include_subtypes", TRUE>> >>
DBaseK(al, fo) == <<"dc", "Ev", << <<"v", <<"int">>, <<"req">>, <<>> >> >>,
                    << <<"discriminator", KOpts>>, <<"discr_field", "kind">> >>
                    \o (IF al THEN << <<"allow_deserialization_not_by_alias", TRUE>> >> ELSE <<>>) \o (IF fo THEN << <<"forbid_extra_keys", TRUE>> >> ELSE <<>>) >>
DVarK(al, fo) == <<"dc", "Click", << <<"v", <<"int">>, <<"req">>, <<>> >>, <<"x", <<"int">>, <<"val", I(1)>>, << <<"alias", "xx">> >> >> >>,
                   << <<"bases", <<DBaseK(al, fo)>> >>, <<"classvars", << <<"kind", S("click")>> >> >>, <<"discr_field", "kind">>, <<"no_config", TRUE>> >>
                   \o (IF al THEN << <<"allow_deserialization_not_by_alias", TRUE>> >> ELSE <<>>) \o (IF fo THEN << <<"forbid_extra_keys", TRUE>> >> ELSE <<>>) >>
KClasses == { DVarK(al, fo) : al \in BOOLEAN, fo \in BOOLEAN }
KCand == <<"v", "x", "xx", "kind", "zz">>
KInputs == { Dct(LET idx == SelectSeq([i \in DOMAIN KCand |-> i], LAMBDA i : i \in K) IN
                 [n \in DOMAIN idx |-> <<S(KCand[idx[n]]), IF KCand[idx[n]] = "kind" THEN S("click") ELSE KeyVal(idx[n])>>]) : K \in SUBSET (DOMAIN KCand) }

InputFor(K) == LET idx == SelectSeq([i \in DOMAIN Candidates |-> i], LAMBDA i : i \in K) IN
               Dct([n \in DOMAIN idx |-> <<S(Candidates[idx[n]]), KeyVal(idx[n])>>])

Init == T = <<"start">> /\ v = <<"nov">> /\ kind = "start"
Next == \/ kind = "start" /\ T' \in Classes \cup SibHolders \cup NClasses \cup KClasses /\ v' = v /\ kind' = "type"
        \/ kind = "type" /\ T[2] = "Click" /\ T' = T /\ v' \in KInputs /\ kind' = "input"
        \/ kind = "type" /\ T[2] = "KN" /\ T' = T /\ v' \in NInputs /\ kind' = "input"
        \/ kind = "type" /\ T[2] \notin {"SH", "KN", "Click"} /\ T' = T /\ v' \in { InputFor(K) : K \in SUBSET (DOMAIN Candidates) } /\ kind' = "input"
        \/ kind = "type" /\ T[2] = "SH" /\ T' = T /\ v' \in SibInputs /\ kind' = "input"

Dec == Unpack(T, DefaultCx, v)

\* ---- model theorems about the key model itself
\* exactly one key decides each field; a result never contains a value of a key outside the accepted set
Allowed == { k[2] : k \in AllowedKeys(T) }
ReadsOnlyAllowed ==
  kind = "input" /\ T[2] \notin {"SH", "KN", "Click"} /\ ~IsUnknown(Dec) /\ IsOk(Dec) =>
    \A i \in 1..2 : LET x == Dec[2][3][i] IN
       x = I(0) \/ \E c \in DOMAIN Candidates : KeyVal(c) = x /\ Candidates[c] \in Allowed /\ PairsHas(v[2], S(Candidates[c]))
\* with forbid_extra_keys the error lists exactly the unexpected keys
ExtraExact ==
  kind = "input" /\ T[2] \notin {"SH", "KN", "Click"} /\ ~IsUnknown(Dec) /\ ~IsOk(Dec) /\ Dec[2][1] = "Extra" =>
    Dec[2][2] = { v[2][i][1] : i \in DOMAIN v[2] } \ AllowedKeys(T)
\* the alias wins over the name when both are present
AliasWins ==
  kind = "input" /\ T[2] \notin {"SH", "KN", "Click"} /\ ~IsUnknown(Dec) /\ IsOk(Dec) =>
    \A i \in 1..2 : LET f == DcFields(T)[i] IN
       (FAlias(T, f) # "#none" /\ PairsHas(v[2], S(FAlias(T, f)))) => Dec[2][3][i] = PairsGet(v[2], S(FAlias(T, f)))

\* siblings: the plain field "a" of User is read from "a" only -- never from Group's field-level alias
SiblingAliasOwn ==
  (kind = "input" /\ T[2] = "SH" /\ IsOk(Dec)) =>
    LET ui == IF T[3][1][1] = "u" THEN 1 ELSE 2
        upart == PairsGet(v[2], S("u"))
        ua == Dec[2][3][ui][3][2] IN
    ua = (IF PairsHas(upart[2], S("a")) THEN PairsGet(upart[2], S("a")) ELSE I(1))
InitFalseNeverKey ==
  (kind = "input" /\ T[2] = "KN") =>
    LET given == { v[2][i][1] : i \in DOMAIN v[2] } \cap { S("c"), S("c_alias"), S("zz") } IN
    /\ IsOk(Dec) => Dec[2][3][3] = I(3)
    /\ (GetOpt(DcCfg(T), "forbid_extra_keys", FALSE) /\ given # {}) => (~IsOk(Dec) /\ Dec[2][1] = "Extra" /\ given \subseteq Dec[2][2])
\* the discriminator key of the hierarchy is never reported as an extra key of the variant
DiscrKeyAccepted == (kind = "input" /\ T[2] = "Click" /\ ~IsOk(Dec) /\ Dec[2][1] = "Extra") => S("kind") \notin Dec[2][2]
EmitInv == kind = "input" => PrintT(ToJson(<<"inp", T, v, Dec>>))
=============================================================================
