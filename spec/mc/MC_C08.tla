------------------------------- MODULE MC_C08 -------------------------------
(***************************************************************************)
(* C08 -- serialization options only project the plain output.             *)
(* Exhaustive over the option lattice: Config {omit_none, omit_default,    *)
(* serialize_by_alias} in {unset,F,T}^3 x sort_keys x every subset of the  *)
(* code-generation flags x Config.dialect x keyword arguments x call       *)
(* dialects, for a class with aliased / nullable / defaulted / omitted     *)
(* fields and a nested class that did or did not opt in, on 3 instances.   *)
(***************************************************************************)
EXTENDS Gen, Json

CONSTANT Full            \* FALSE: quick subset (no Config.dialect axis)
VARIABLES T, v, kind, call

Tri == {"unset", "yes", "no"}
AllFlags == {"omit_none_flag", "by_alias_flag", "dialect_flag"}
OptIf(name, val) == IF val = "unset" THEN <<>> ELSE << <<name, val = "yes">> >>

Dl(name, opts) == << <<"name", name>> >> \o opts
CfgDialects == IF Full THEN { <<>>, << <<"omit_none", TRUE>> >>, << <<"serialize_by_alias", TRUE>> >>, << <<"omit_default", TRUE>> >> }
               ELSE { <<>> }
CallDialects == { <<>>, << <<"omit_none", TRUE>> >>, << <<"serialize_by_alias", TRUE>>, <<"omit_none", FALSE>> >>, << <<"omit_default", TRUE>> >> }

NN(optin) == <<"dc", "N", << <<"p", <<"opt", <<"int">> >>, <<"val", None>>, <<>> >>,
                             <<"q", <<"int">>, <<"val", I(1)>>, << <<"alias", "qq">> >> >> >>,
               IF optin THEN << <<"flags", AllFlags>> >> ELSE <<>> >>

Class(on, od, ba, sk, fl, cd, optin) ==
  <<"dc", "C",
    << <<"x", <<"opt", <<"int">> >>, <<"val", None>>, <<>> >>,
       <<"y", <<"int">>, <<"val", I(5)>>, << <<"alias", "yy">> >> >>,
       <<"z", <<"str">>, <<"val", S("s")>>, <<>> >>,
       <<"w", <<"opt", <<"str">> >>, <<"val", S("dw")>>, <<>> >>,
       <<"n", NN(optin), <<"fac", <<"obj", "N", <<None, I(1)>> >> >>, <<>> >>,
       <<"m", <<"int">>, <<"val", I(0)>>, << <<"ser", "omit">> >> >>,
       <<"u", <<"opt", <<"int">> >>, <<"val", I(0)>>, <<>> >> >>,                  \* nullable with a FALSY non-None default
    OptIf("omit_none", on) \o OptIf("omit_default", od) \o OptIf("serialize_by_alias", ba)
      \o << <<"aliases", << <<"z", "zz">> >> >> >>
      \o (IF sk THEN << <<"sort_keys", TRUE>>, <<"sorted_idx", <<6, 5, 7, 4, 1, 2, 3>> >> >> ELSE <<>>)
      \o (IF fl # {} THEN << <<"flags", fl>> >> ELSE <<>>)
      \o (IF cd # <<>> THEN << <<"dialect", cd>> >> ELSE <<>>) >>

\* omit_default must compare with the default VALUE whatever it is: a tuple default holding non-literal objects
TupClass(od) == <<"dc", "C", << <<"t", <<"vtuple", <<"text", "posixpath">> >>, <<"val", <<"tuple", << <<"text", "posixpath", "/abs/q">> >> >> >>, <<>> >>,
                                <<"k", <<"int">>, <<"val", I(1)>>, <<>> >> >>,
                  OptIf("omit_default", od)>>
TupInstances == { <<"obj", "C", << <<"tuple", << <<"text", "posixpath", "/abs/q">> >> >>, I(1)>> >>,
                  <<"obj", "C", << <<"tuple", << <<"text", "posixpath", "rel/p">> >> >>, I(2)>> >> }
\* a RECURSIVE union alias  type Tree = N | list[Tree]  as a field: the keyword arguments reach the nested class N (which enabled the
\* same flags) at EVERY depth of the recursion
RECURSIVE RecU(_)
RecU(k) == IF k = 0 THEN NN(TRUE) ELSE <<"union", <<NN(TRUE), <<"list", RecU(k - 1)>> >> >>
TreeT == <<"rec695", "Tree", <<"union", <<NN(TRUE), <<"list", <<"recref", "Tree">> >> >> >>, RecU(3)>>
RecClass(on, ba, fl) ==
  <<"dc", "CRec", << <<"t", TreeT, <<"req">>, <<>> >>, <<"a", <<"int">>, <<"val", I(1)>>, << <<"alias", "aa">> >> >>,
                     <<"x", <<"opt", <<"int">> >>, <<"val", None>>, <<>> >> >>,
    OptIf("omit_none", on) \o OptIf("serialize_by_alias", ba) \o (IF fl # {} THEN << <<"flags", fl>> >> ELSE <<>>) >>
NV(p, q) == <<"obj", "N", <<p, I(q)>> >>
RecInstances == { <<"obj", "CRec", <<L(<<NV(None, 2), L(<<NV(I(4), 1), L(<<NV(None, 3)>>)>>)>>), I(1), None>> >>,
                  <<"obj", "CRec", <<NV(None, 5), I(2), I(7)>> >> }
Classes == { RecClass(on, ba, fl) : on \in {"unset", "yes"}, ba \in {"unset", "yes"}, fl \in SUBSET AllFlags } \cup { TupClass(od) : od \in Tri } \cup { Chain3(Class(on, od, ba, sk, {}, <<>>, FALSE)) : on \in Tri, od \in Tri, ba \in Tri, sk \in BOOLEAN } \cup { Class(on, od, ba, sk, fl, cd, oi) : on \in Tri, od \in Tri, ba \in Tri, sk \in BOOLEAN,
                                                  fl \in SUBSET AllFlags, cd \in CfgDialects, oi \in BOOLEAN }

Instances == { <<"obj", "C", <<None, I(5), S("s"), S("dw"), <<"obj", "N", <<None, I(1)>> >>, I(0), I(0)>> >>,
               <<"obj", "C", <<I(3), I(6), S("t"), None, <<"obj", "N", <<I(4), I(2)>> >>, I(9), None>> >>,
               <<"obj", "C", <<None, I(6), S("s"), None, <<"obj", "N", <<None, I(2)>> >>, I(0), I(8)>> >> }

\* keyword arguments exist only where the class enabled the flag
Calls(C) == { <<kon, kba, kd>> \in Tri \X Tri \X CallDialects :
                /\ ("omit_none_flag" \notin Flags(C) => kon = "unset")
                /\ ("by_alias_flag" \notin Flags(C) => kba = "unset")
                /\ ("dialect_flag" \notin Flags(C) => kd = <<>>) }
CallOpts(c) == OptIf("omit_none", c[1]) \o OptIf("by_alias", c[2]) \o (IF c[3] # <<>> THEN << <<"dialect", c[3]>> >> ELSE <<>>)
CxOf(c) == [DefaultCx EXCEPT !.omit_none = c[1], !.by_alias = c[2], !.dlct = c[3]]

Init == T = <<"start">> /\ v = <<"nov">> /\ kind = "start" /\ call = <<"unset", "unset", <<>> >>
Next == \/ kind = "start" /\ T' \in Classes /\ v' = v /\ kind' = "type" /\ call' = call
        \/ kind = "type" /\ T' = T /\ v' \in (IF T[2] = "CRec" THEN RecInstances ELSE IF Len(DcFields(T)) = 2 THEN TupInstances ELSE Instances) /\ call' \in Calls(T) /\ kind' = "value"

Wire == Pack(T, CxOf(call), v)
\* the plain serialization: same class without options
PlainT == <<"dc", "C", DcFields(T), <<>> >>
PlainN(n) == <<"dc", "N", DcFields(n), <<>> >>

\* ---- the property on the model: Wire is a PROJECTION of the plain output --
\* every emitted key is the name or the alias of a field, its value equals the plain value of
\* that field (nested class compared modulo its own projection), in field (or sorted) order
NameOf(k) == LET fs == DcFields(T) IN
             IF \E i \in DOMAIN fs : FName(fs[i]) = k THEN k
             ELSE FName(fs[CHOOSE i \in DOMAIN fs : FAlias(T, fs[i]) = k])
Plain == Pack(PlainT, DefaultCx, v)
ProjectionOnly ==
  (kind = "value" /\ T[2] = "C" /\ Len(DcFields(T)) > 2) =>
    /\ \A i \in DOMAIN Wire[2] :
         LET k == Wire[2][i][1][2] n == NameOf(k) IN
         /\ PairsHas(Plain[2], S(n))
         /\ (n # "n" => Wire[2][i][2] = PairsGet(Plain[2], S(n)))
    /\ \A i, j \in DOMAIN Wire[2] : i # j => Wire[2][i][1] # Wire[2][j][1]
\* nothing that is neither None-valued, default-valued nor omit-engine is ever dropped
NoValueDropped ==
  (kind = "value" /\ T[2] = "C") =>
    \A i \in DOMAIN DcFields(T) : LET f == DcFields(T)[i] x == v[3][i] IN
      (~IsNone(x) /\ x # DefaultOf(f) /\ GetOpt(FOpts(f), "ser", "") # "omit")
        => (PairsHas(Wire[2], S(FName(f))) \/ PairsHas(Wire[2], S(FKeyByAlias(T, f))))

EmitInv == kind = "value" => PrintT(ToJson(<<"vec", T, v, Wire, <<"unknown">>, CallOpts(call)>>))
=============================================================================
