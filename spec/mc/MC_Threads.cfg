CONSTANTS
  Thr = {1, 2, 3}
  Install = "replace"
INIT Init
NEXT Next
INVARIANT Faithful
INVARIANT NoStubToStub
INVARIANT EmitInv
