------------------------------- MODULE MC_Core -------------------------------
(***************************************************************************)
(* Exhaustive enumeration of (type, value) over the bounded grammar of     *)
(* Gen.tla for C01 / C02 / C03 (channel M: model theorems, channel R:      *)
(* every state is exported as one implementation test vector).             *)
(* Level 1 states choose the type, level 2 states the value / the foreign  *)
(* input (so that TLC's workers share the evaluation).                     *)
(***************************************************************************)
EXTENDS Gen, SequencesExt, Json

CONSTANTS Depth,      \* 0 (leaves only), 1 or 2
          Emit,       \* TRUE: print one JSON vector per state
          Foreign     \* TRUE: also enumerate foreign inputs (T, j) for C03
VARIABLES T, v, kind  \* kind = "type" | "value" | "input"

MapCtors == {"dict", "odict", "ddict", "mapping", "mmapping", "mproxy", "chainmap"}
\* mappings: all keys x representative values, representative keys x all values
Types1 ==
  Leaves
  \cup { t \in Ctor1(Leaves, KeyLeaves) : t[1] \in MapCtors => (t[2] \in RepKeys \/ t[3] \in RepLeaves) }
\* collections whose ELEMENTS are nullable (the None short-circuit must survive every enclosing context:
\* bare codec, required field, Optional field, field defaulting to None)
NullableElems == { <<"opt", e>> : e \in { <<"int">>, <<"str">>, <<"date">> } }
Types1N == { <<c, e>> : c \in {"list", "vtuple", "deque", "seq"}, e \in NullableElems }
           \cup { <<"dict", <<"str">>, e>> : e \in NullableElems }
           \cup { <<"tuple", <<e, <<"opt", <<"str">> >> >> >> : e \in NullableElems }
           \cup { <<"utuple", <<e>>, e, <<e>> >> : e \in NullableElems }
           \cup { <<"ntuple", "NT", << <<"a", e, <<"req">> >>, <<"b", <<"opt", <<"int">> >>, <<"val", None>> >> >> >> : e \in NullableElems }
           \cup { <<"tdict", "TD", << <<"k", e, TRUE>>, <<"o", e, FALSE>> >> >> : e \in NullableElems }
\* a SerializableType with use_annotations=True: the value handed out by _serialize() is packed by its RETURN ANNOTATION,
\* whose own nullability must not depend on the enclosing position (bare, required field, Optional field) -- F50
Types1W == { <<"stype", "SW", e>> : e \in NullableElems \cup { <<"int">>, <<"list", <<"int">> >>, <<"opt", <<"list", <<"int">> >> >>,
                                                               <<"opt", <<"vtuple", <<"str">> >> >>, <<"opt", <<"dict", <<"str">>, <<"int">> >> >> } }
\* a NAME for a nullable type (NewType("NTy", Optional[X]), type TA = Optional[X]): the name is as nullable as what it stands for,
\* at the top of a codec shape and as a required field alike -- F51
Types1A == { <<k[1], k[2], e>> : k \in { <<"newtype", "NTy">>, <<"alias695", "TA">> },
                                 e \in NullableElems \cup { <<"opt", <<"list", <<"int">> >> >>, <<"opt", <<"timedelta">> >>, <<"union", << <<"none">>, <<"dict", <<"str">>, <<"int">> >> >> >> } }
Inner2 == { t \in Ctor1(RepLeaves, RepKeys) : t[1] \in {"list", "dict", "opt", "tuple", "set", "ntuple", "tdict", "deque", "chainmap", "utuple", "odict"} }
Types2 == { t \in Ctor1(Inner2, RepKeys) : t[1] \in {"list", "dict", "opt", "tuple", "vtuple", "ntuple", "tdict", "odict", "utuple", "newtype", "mproxy"} }
\* PEP 646 star syntax  tuple[X, *tuple[Y, ...], Z]  means the same as Tuple[X, Unpack[Tuple[Y, ...]], Z]
Types1S == { <<"ustar", <<e>>, <<"int">>, << <<"str">> >> >> : e \in { <<"int">>, <<"str">>, <<"date">>, <<"bool">> } }
\* a few unions (C11 enumerates them exhaustively; here they meet the whole foreign-input universe and every holder)
Types1U == { <<"union", <<a, b>> >> : a \in { <<"int">>, <<"str">>, <<"float">> }, b \in { <<"list", <<"int">> >>, <<"dict", <<"str">>, <<"int">> >> } }
           \cup { <<"union", << <<"list", <<"int">> >>, <<"int">> >> >> }     \* (a list member BEFORE str would accept text by iteration: shared wire form)
           \cup { <<"union", << <<"int">>, <<"date">> >> >>, <<"union", << <<"date">>, <<"float">> >> >> }      \* (str | date share a wire form: excluded by C01)
\* plain (non-mixin) dataclasses related by INHERITANCE, both used as nested fields, parent first
ParentPlain == <<"dc", "Shape", << <<"name", <<"str">>, <<"req">>, <<>> >> >>, << <<"mixin", "plain">> >> >>
ChildPlain == <<"dc", "Circle", << <<"name", <<"str">>, <<"req">>, <<>> >>, <<"radius", <<"float">>, <<"val", <<"float", 1, 0>> >>, <<>> >>,
                                   <<"tags", <<"list", <<"str">> >>, <<"fac", L(<<>>)>>, <<>> >> >>,
                << <<"mixin", "plain">>, <<"bases", <<ParentPlain>> >> >> >>
InheritHolder(plain) == <<"dc", "Drawing", << <<"shape", ParentPlain, <<"req">>, <<>> >>, <<"circle", ChildPlain, <<"req">>, <<>> >>,
                                               <<"more", <<"list", ChildPlain>>, <<"fac", L(<<>>)>>, <<>> >> >>,
                          IF plain THEN << <<"mixin", "plain">> >> ELSE <<>> >>
Types1I == { InheritHolder(TRUE), InheritHolder(FALSE) }
\* a GENERIC plain dataclass Box[T] (v: T, vs: List[T], m: Dict[str, T]) used at several specialisations in one holder
TVar == <<"tvar", "T">>
GBox(arg) == <<"dc", "Box", << <<"v", arg, <<"req">>, <<>> >>, <<"vs", <<"list", arg>>, <<"fac", L(<<>>)>>, <<>> >>,
                               <<"m", <<"dict", <<"str">>, arg>>, <<"fac", Dct(<<>>)>>, <<>> >> >>,
               << <<"mixin", "plain">>, <<"generic", << <<"T">>, <<arg>>, << <<"v", TVar>>, <<"vs", <<"list", TVar>> >>, <<"m", <<"dict", <<"str">>, TVar>> >> >> >> >> >> >>
GenHolder(plain) == <<"dc", "GH", << <<"a", GBox(<<"int">>), <<"req">>, <<>> >>, <<"b", GBox(<<"date">>), <<"req">>, <<>> >>,
                                      <<"c", <<"opt", GBox(<<"list", <<"str">> >>)>>, <<"val", None>>, <<>> >>,
                                      <<"d", <<"list", GBox(<<"opt", <<"text", "decimal">> >>)>>, <<"fac", L(<<>>)>>, <<>> >> >>,
                     IF plain THEN << <<"mixin", "plain">> >> ELSE <<>> >>
\* the type variable bound to classes that live in ANOTHER top-level module than the generic class and its holder
ForeignItem == <<"dc", "Item", << <<"sku", <<"str">>, <<"req">>, <<>> >>, <<"n", <<"int">>, <<"val", I(1)>>, <<>> >> >>, << <<"mixin", "plain">>, <<"module", "shapes">> >> >>
ForeignEnum == <<"enum", "Shade", "Enum", << <<"DARK", S("d")>>, <<"LIGHT", S("l")>> >>, << <<"module", "shapes">> >> >>
ForeignHolder(arg) == <<"dc", "FHold", << <<"b", GBox(arg), <<"req">>, <<>> >> >>, <<>> >>
\* TWO classes with ONE short name ("Item") in two modules, both bound to the type variable of one generic class inside one
\* holder (either order of first compilation): each specialisation is the class named in ITS annotation
LocalItem == <<"dc", "ItemL", << <<"sku", <<"int">>, <<"req">>, <<>> >>, <<"w", <<"str">>, <<"val", S("w")>>, <<>> >> >>, << <<"mixin", "plain">>, <<"pyname", "Item">> >> >>
SameNameHolder(foreignFirst, plain) ==
  <<"dc", "SNH", (IF foreignFirst THEN << <<"a", GBox(ForeignItem), <<"req">>, <<>> >>, <<"b", GBox(LocalItem), <<"req">>, <<>> >> >>
                  ELSE << <<"b", GBox(LocalItem), <<"req">>, <<>> >>, <<"a", GBox(ForeignItem), <<"req">>, <<>> >> >>),
    IF plain THEN << <<"mixin", "plain">> >> ELSE <<>> >>
Types1G == { GenHolder(TRUE), GenHolder(FALSE), SameNameHolder(TRUE, FALSE), SameNameHolder(FALSE, FALSE), SameNameHolder(TRUE, TRUE),
             <<"tuple", <<GBox(LocalItem), GBox(ForeignItem)>> >>, GBox(<<"datetime">>), GBox(<<"union", << <<"int">>, <<"list", <<"int">> >> >> >>),
             ForeignHolder(ForeignItem), ForeignHolder(ForeignEnum), GBox(ForeignItem) }
\* GENERICS NESTED IN GENERICS: Node[T] (p: Pair[T, List[T]], q: Optional[Pair[List[T], Dict[str, T]]]) over a two-parameter generic
\* Pair[A, B] -- the type variable occurs several times, top-level and nested, in the arguments of the inner alias
TVarA == <<"tvar", "A">>
TVarB == <<"tvar", "B">>
GenOpt(params, args, tfields) == <<"generic", <<params, args, tfields>> >>
GPair(a, b) == <<"dc", "Pair", << <<"first", a, <<"req">>, <<>> >>, <<"second", b, <<"req">>, <<>> >> >>,
                 << <<"mixin", "plain">>, GenOpt(<<"A", "B">>, <<a, b>>, << <<"first", TVarA>>, <<"second", TVarB>> >>) >> >>
NodeP(x) == GPair(x, <<"list", x>>)
NodeQ(x) == <<"opt", GPair(<<"list", x>>, <<"dict", <<"str">>, x>>)>>
GNode(arg) == <<"dc", "Node", << <<"p", NodeP(arg), <<"req">>, <<>> >>, <<"q", NodeQ(arg), <<"val", None>>, <<>> >> >>,
                << <<"mixin", "plain">>, GenOpt(<<"T">>, <<arg>>, << <<"p", NodeP(TVar)>>, <<"q", NodeQ(TVar)>> >>) >> >>
NodeHolder(plain) == <<"dc", "NH", << <<"a", GNode(<<"int">>), <<"req">>, <<>> >>, <<"b", <<"list", GNode(<<"date">>)>>, <<"fac", L(<<>>)>>, <<>> >> >>,
                      IF plain THEN << <<"mixin", "plain">> >> ELSE <<>> >>
Types1GG == { GNode(<<"int">>), GNode(<<"date">>), GNode(<<"text", "decimal">>), GPair(<<"date">>, <<"list", <<"date">> >>), NodeHolder(TRUE), NodeHolder(FALSE) }
Types == IF Depth = 0 THEN Leaves ELSE IF Depth = 1 THEN Types1 \cup Types1N \cup Types1W \cup Types1A \cup Types1S \cup Types1U \cup Types1I \cup Types1G \cup Types1GG ELSE Types2
FalsyLeaves == { <<"int">>, <<"float">>, <<"bool">>, <<"str">>, <<"bytes">>, <<"timedelta">>, <<"text", "decimal">>, <<"text", "fraction">> }
AllTypes == Types \cup { Holder(t) : t \in Types } \cup { PlainHolder(t) : t \in Types }
            \cup (IF Depth = 1 THEN { Chain3(Holder(t)) : t \in Leaves \ { <<"none">> } } \cup { Chain3(PlainHolder(t)) : t \in RepLeaves } ELSE {})
            \cup { FalsyHolder(t, FirstOf(Smp(t))) : t \in Types \cap FalsyLeaves }
            \* a subclass of a format-mixin class whose fields refer to typing.Self (Gen.tla): nested documents are documents of the SUBCLASS
            \cup (IF Depth = 1 THEN SelfFams ELSE {})

Cx == DefaultCx

\* ---- foreign inputs (C03): JSON-like data that is not serializer output
JScalars == { I(0), I(1), I(-7), <<"float", 15, -1>>, <<"float", 2, 0>>, B(TRUE), B(FALSE), None,
              S(""), S("a"), S("1"), S("1.5"), S("ab"), S("2024-01-02"), S("2024-01-02T03:04:05"), S("03:04:05"),
              S("UTC"), S("UTC+03:00"), S("UTC-00:30"), S("r"), S("on"), S("garbage"), S("AQI=\n"),
              S("12345678-1234-5678-1234-567812345678"), S("127.0.0.1"), S("1/3"), S("x/y") }
JLists == { L(<<>>), L(<<I(1)>>), L(<<S("a"), I(2)>>), L(<<I(1), I(2), I(3)>>), L(<<None>>), L(<<S("1"), S("2")>>),
            L(<<L(<<I(1)>>), L(<<>>)>>), L(<<Dct(<< <<S("a"), I(1)>> >>)>>) }
JDicts == { Dct(<<>>), Dct(<< <<S("a"), I(1)>> >>), Dct(<< <<S("x"), I(1)>>, <<S("y"), S("s")>> >>),
            Dct(<< <<S("f"), I(1)>> >>), Dct(<< <<S("f"), S("a")>>, <<S("g"), None>>, <<S("zz"), I(0)>> >>),
            Dct(<< <<S("k"), I(3)>>, <<S("o"), S("4")>> >>), Dct(<< <<S("a"), L(<<I(1)>>)>> >>),
            Dct(<< <<S("1"), S("2")>> >>) }
J == JScalars \cup JLists \cup JDicts

Init == T = <<"start">> /\ v = <<"nov">> /\ kind = "start"
Next == \/ kind = "start" /\ T' \in AllTypes /\ v' = v /\ kind' = "type"
        \/ kind = "type" /\ T \notin SelfFams /\ T' = T /\ v' \in Range(Smp(T)) /\ kind' = "value"    \* (the Self family is unfolded to a finite depth: only its hand-written documents are inputs)
        \/ kind = "type" /\ Foreign /\ T' = T /\ v' \in J /\ kind' = "input"
        \/ kind = "type" /\ T \in SelfFams /\ T' = T /\ v' \in SelfInputs /\ kind' = "input"

\* a wire form is a list where the reference says "list in iteration order of a set"
RECURSIVE Listify(_)
Listify(w) ==
  CASE w[1] = "bag"  -> L(LET s == SetToSeq(w[2]) IN [i \in DOMAIN s |-> Listify(s[i])])
    [] w[1] = "list" -> L([i \in DOMAIN w[2] |-> Listify(w[2][i])])
    [] w[1] = "dict" -> Dct([i \in DOMAIN w[2] |-> <<Listify(w[2][i][1]), Listify(w[2][i][2])>>])
    [] OTHER -> w

Wire == Pack(T, Cx, v)
Back == Unpack(T, Cx, Listify(Wire))
Dec  == Unpack(T, Cx, v)

\* ---- model theorems
Conforming == kind = "value" => Conforms(T, v)                                   \* the generator only makes conforming values
BasicForm  == kind = "value" => IsBasic(Wire, {})                                \* C02
RoundTrip  == kind = "value" => (IsUnknown(Back) \/ Back = Ok(v))                \* C01 on the model
WellTyped  == /\ kind = "value" => (IsOk(Back) => Conforms(T, Back[2]))          \* C03 on the model
              /\ kind = "input" => (IsOk(Dec) => Conforms(T, Dec[2]))

EmitInv == /\ (Emit /\ kind = "value") => PrintT(ToJson(<<"vec", T, v, Wire, Back>>))
           /\ (Emit /\ kind = "input") => PrintT(ToJson(<<"inp", T, v, Dec>>))
=============================================================================
