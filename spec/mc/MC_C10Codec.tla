----------------------------- MODULE MC_C10Codec -----------------------------
(* C10 at the codec entry point: BasicEncoder/BasicDecoder(NTy, default_dialect=D); only the *)
(* format-dialect level exists, with the three type keys and every mode per registration.    *)
EXTENDS Gen, Json
VARIABLES m, kind
LD == <<"list", <<"date">> >>
NTt == <<"newtype", "NTy", LD>>
KeyTerm(k) == CASE k = "nt" -> NTt [] k = "ex" -> LD [] k = "or" -> <<"origin", "list">>
Keys == <<"nt", "ex", "or">>
Modes == {"off", "both", "ser", "deser", "pt"}
Strat(id, mode) == IF mode = "pt" THEN <<"pass_through">> ELSE <<"mark", id, mode>>
Table(f) == LET ks == SelectSeq(Keys, LAMBDA k : f[k] # "off") IN [i \in DOMAIN ks |-> <<KeyTerm(ks[i]), Strat("dd_" \o ks[i], f[ks[i]])>>]
DialectOf(f) == IF Table(f) = <<>> THEN <<>> ELSE << <<"name", "DD">>, <<"strategy", Table(f)>> >>
Init == m = [k \in {"nt", "ex", "or"} |-> "off"] /\ kind = "start"
Next == kind = "start" /\ m' \in [{"nt", "ex", "or"} -> Modes] /\ kind' = "case"
Cx == [DefaultCx EXCEPT !.fmtd = DialectOf(m), !.levels = << GetOpt(DialectOf(m), "strategy", <<>>) >>]
Value == L(<< <<"date", 2024, 2, 29>> >>)
Input == L(<< S("2024-02-29") >>)
EmitInv == kind = "case" => PrintT(ToJson(<<"codec", NTt, DialectOf(m), Value, Pack(NTt, Cx, Value), Input, Unpack(NTt, Cx, Input)>>))
=============================================================================
