CONSTANTS
  ClassOf <- MCClassOf
  ParentOf <- MCParentOf
  Names <- MCNames
  DialectOf <- MCDialectOf
  DNames <- MCDNames
  ValueOf <- MCValueOf
  InputOf <- MCInputOf
  MaxLen = 4
  CacheMode = "own"
  Codecs = FALSE
  LazyC = FALSE
  LazyInner = FALSE
  Mixin = "dict"
  KwFlags = FALSE
  FmtsOf <- MCFmtsOf
  KwNames <- MCKwNames
INIT Init
NEXT Next
INVARIANT Faithful
INVARIANT CacheOwn
INVARIANT IsolationEq
INVARIANT EmitTables
INVARIANT EmitInv
PROPERTY CodecPure
