CONSTANTS
  Site = "config"
  WithField = TRUE
  Supertypes = FALSE
  MaxLen = 5
  RegMode = "perposition"
  Walk = "recursive"
INIT Init
NEXT Next
INVARIANT VariantChoice
INVARIANT RegistrySound
INVARIANT NoInheritedTag
INVARIANT EmitInv
