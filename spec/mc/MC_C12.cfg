CONSTANTS
  Site = "config"
  WithField = TRUE
  Supertypes = FALSE
  MaxLen = 5
  RegMode = "perposition"
  Walk = "recursive"
  Faults = FALSE
  Nested = FALSE
  Shared = FALSE
  Tagger = "none"
INIT Init
NEXT Next
INVARIANT VariantChoice
INVARIANT RegistrySound
INVARIANT NoInheritedTag
INVARIANT EmitInv
