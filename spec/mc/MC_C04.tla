------------------------------- MODULE MC_C04 -------------------------------
(***************************************************************************)
(* C04 -- format codecs are lossless and equal the format encoding of the  *)
(* basic form.  A format is an abstract lossless channel on its            *)
(* representable subset; what parsing the produced document with the       *)
(* format's own library must yield is                                      *)
(*   json / yaml / orjson :  the basic form (orjson renders its native     *)
(*                           types as the same ISO / canonical text)       *)
(*   msgpack              :  the basic form with bytes / bytearray native  *)
(*                           (a bytearray comes back as bytes)             *)
(*   toml                 :  the basic form with datetime / date / time    *)
(*                           native and None-valued dataclass fields gone  *)
(***************************************************************************)
EXTENDS Gen, Json, SequencesExt

VARIABLES F, T, v, kind

Formats == {"json", "orjson", "yaml", "msgpack", "toml"}
FLeaves == { <<"int">>, <<"float">>, <<"bool">>, <<"str">>, <<"datetime">>, <<"date">>, <<"time">>, <<"timedelta">>,
             <<"text", "uuid">>, <<"text", "decimal">>, <<"bytes">>, <<"bytearray">>, Color, Prio, <<"tz">> }
\* "string map keys": keys that are text IN THE DOCUMENT.  str / StrEnum everywhere; date / UUID keys are converted to text by
\* every format dialect that does not declare them native (TOML keeps date, orjson keeps date and UUID native: a native
\* object is not representable as a key there)
FKeys == { <<"str">>, Mode }
FKeysOf(f) == IF f \in {"toml", "orjson"} THEN FKeys \cup { <<"text", "decimal">> } ELSE FKeys \cup { <<"date">>, <<"text", "uuid">> }
Ctor4(E, f) == { <<c, e>> : c \in {"list", "opt", "vtuple", "set", "deque"}, e \in E \cap KeyLeaves }
            \cup { <<c, e>> : c \in {"list", "opt"}, e \in E }
            \cup { <<"dict", k, e>> : k \in FKeysOf(f), e \in E }
            \cup { <<"tuple", <<e, <<"str">> >> >> : e \in E }
            \cup { <<"ntuple", "NT", << <<"a", e, <<"req">> >>, <<"b", <<"int">>, <<"val", I(9)>> >> >> >> : e \in E }
Shapes(f) == FLeaves \cup Ctor4(FLeaves, f) \cup { <<"list", <<"dict", <<"str">>, e>> >> : e \in {<<"datetime">>, <<"bytes">>, <<"int">>} }

\* every shape is exercised as the field of a dataclass with the format's mixin AND as a plain dataclass through the format's codec
MixinOf(f) == f
HolderF(f, t, plain) ==
  <<"dc", "HF", << <<"f", t, <<"req">>, <<>> >>, <<"g", <<"opt", t>>, <<"val", None>>, <<>> >>, <<"n", <<"opt", <<"int">> >>, <<"val", None>>, <<>> >> >>,
    << <<"mixin", IF plain THEN "plain" ELSE MixinOf(f)>> >> >>

\* a class whose fields refer to typing.Self (Optional[Self], List[Self]) with the format's mixin: <<"fwd", "#self", U>> is
\* the annotation Self, U its meaning unfolded to the depth the values need
RECURSIVE SelfT(_, _)
SelfT(f, k) ==
  LET U == IF k = 0 THEN <<"none">> ELSE SelfT(f, k - 1) IN
  <<"dc", "SN", << <<"payload", <<"bytes">>, <<"req">>, <<>> >>, <<"when", <<"date">>, <<"req">>, <<>> >>,
                   <<"next", <<"opt", <<"fwd", "#self", U>> >>, <<"val", None>>, <<>> >>,
                   <<"kids", <<"list", <<"fwd", "#self", U>> >>, <<"fac", L(<<>>)>>, <<>> >> >>,
    << <<"mixin", f>> >> >>
SN(b, y, nx, ks) == <<"obj", "SN", << <<"bytes", b>>, <<"date", y, 2, 3>>, nx, L(ks)>> >>
SelfValues == { SN(<<1, 2>>, 2024, None, <<>>),
                SN(<<104, 101>>, 2024, SN(<<255, 116>>, 2023, None, <<>>), <<>>),
                SN(<<1>>, 2024, SN(<<2>>, 2023, SN(<<3>>, 2022, None, <<>>), <<>>), << SN(<<4>>, 2021, None, <<>>), SN(<<5>>, 2020, None, << SN(<<6>>, 2019, None, <<>>) >>) >>) }

\* a hierarchy discriminated at class level (Config.discriminator on the base, the tag is an ordinary defaulted field of the
\* variant) with the format's mixin: Base.from_<format>(variant.to_<format>()) is the variant -- its native-typed fields included --
\* whether the dispatch or a holder nesting the variant is the first use of the variant under that format
DBaseF(f) == <<"dc", "Ev", << <<"n", <<"int">>, <<"req">>, <<>> >> >>,
               << <<"mixin", f>>, <<"discriminator", << <<"field", "type">>, <<"include_subtypes", TRUE>> >> >>, <<"discr_field", "type">> >> >>
DVarF(f) == <<"dc", "Blob", << <<"n", <<"int">>, <<"req">>, <<>> >>, <<"raw", <<"bytes">>, <<"req">>, <<>> >>, <<"when", <<"date">>, <<"req">>, <<>> >>,
                               <<"stamps", <<"list", <<"datetime">> >>, <<"fac", L(<<>>)>>, <<>> >>,
                               <<"type", <<"str">>, <<"val", S("blob")>>, <<>> >> >>,
              << <<"mixin", f>>, <<"bases", <<DBaseF(f)>> >>, <<"no_config", TRUE>> >> >>
DHoldF(f) == <<"dc", "BlobHold", << <<"b", DVarF(f), <<"req">>, <<>> >>, <<"bs", <<"list", DVarF(f)>>, <<"fac", L(<<>>)>>, <<>> >> >>, << <<"mixin", f>> >> >>
DValues == { <<"obj", "Blob", <<I(1), <<"bytes", <<1, 2, 255>> >>, <<"date", 2024, 2, 3>>, L(<<>>), S("blob")>> >>,
             <<"obj", "Blob", <<I(2), <<"bytes", <<>> >>, <<"date", 1999, 12, 31>>, L(<< <<"datetime", 2024, 1, 2, 3, 4, 5, 0, Naive>> >>), S("blob")>> >> }

\* ---- representable subset of each format (statement C04)
RECURSIVE HasAwareTime(_)
HasAwareTime(x) ==
  CASE x[1] = "time" -> x[6] # Naive
    [] x[1] \in {"list", "tuple", "deque"} -> \E i \in DOMAIN x[2] : HasAwareTime(x[2][i])
    [] x[1] \in {"set", "frozenset"} -> \E e \in x[2] : HasAwareTime(e)
    [] x[1] = "dict" -> \E i \in DOMAIN x[2] : HasAwareTime(x[2][i][1]) \/ HasAwareTime(x[2][i][2])
    [] x[1] = "obj" -> \E i \in DOMAIN x[3] : HasAwareTime(x[3][i])
    [] x[1] = "nt" -> \E i \in DOMAIN x[3] : HasAwareTime(x[3][i])
    [] OTHER -> FALSE
RECURSIVE HasInnerNone(_, _)
\* a None that is not a dataclass field value (TOML cannot express it)
HasInnerNone(x, top) ==
  CASE x[1] = "none" -> ~top
    [] x[1] \in {"list", "tuple", "deque"} -> \E i \in DOMAIN x[2] : HasInnerNone(x[2][i], FALSE)
    [] x[1] \in {"set", "frozenset"} -> \E e \in x[2] : HasInnerNone(e, FALSE)
    [] x[1] = "dict" -> \E i \in DOMAIN x[2] : HasInnerNone(x[2][i][2], FALSE)
    [] x[1] = "obj" -> \E i \in DOMAIN x[3] : HasInnerNone(x[3][i], TRUE)
    [] x[1] = "nt" -> \E i \in DOMAIN x[3] : HasInnerNone(x[3][i], FALSE)
    [] OTHER -> FALSE
Representable(f, x) ==
  CASE f \in {"orjson", "toml"} -> ~HasAwareTime(x) /\ (f = "toml" => ~HasInnerNone(x, TRUE))
    [] OTHER -> TRUE

\* TOML has no null: a None-valued dataclass field is omitted and comes back only if None is its default
NullsRestorable(f, C, x) ==
  f = "toml" => \A i \in DOMAIN DcFields(C) : IsNone(x[3][i]) => (FDflt(DcFields(C)[i])[1] = "val" /\ IsNone(FDflt(DcFields(C)[i])[2]))

CxF(f) ==
  CASE f = "msgpack" -> [DefaultCx EXCEPT !.native = {"bytes", "bytearray"}]
    [] f = "toml"    -> [DefaultCx EXCEPT !.native = {"datetime", "date", "time"}, !.fmtd = << <<"omit_none", TRUE>> >>]
    [] OTHER -> DefaultCx
\* a bytearray travels as msgpack bin and is parsed back as bytes
RECURSIVE Parsed(_)
Parsed(w) ==
  CASE w[1] = "bytearray" -> <<"bytes", w[2]>>
    [] w[1] = "list" -> L([i \in DOMAIN w[2] |-> Parsed(w[2][i])])
    [] w[1] = "bag"  -> <<"bag", { Parsed(e) : e \in w[2] }>>
    [] w[1] = "dict" -> Dct([i \in DOMAIN w[2] |-> <<Parsed(w[2][i][1]), Parsed(w[2][i][2])>>])
    [] OTHER -> w

Init == F = "none" /\ T = <<"start">> /\ v = <<"nov">> /\ kind = "start"
Next == \/ kind = "start" /\ F' \in Formats /\ \E t \in Shapes(F'), p \in BOOLEAN : T' = HolderF(F', t, p) /\ v' = v /\ kind' = "type"
        \/ kind = "start" /\ F' \in Formats /\ T' = SelfT(F', 3) /\ v' = v /\ kind' = "selftype"
        \/ kind = "selftype" /\ F' = F /\ T' = T /\ v' \in SelfValues /\ kind' = "value"
        \/ kind = "start" /\ F' \in Formats /\ T' = DVarF(F') /\ v' \in DValues /\ kind' = "dvalue"
        \/ kind = "type" /\ F' = F /\ T' = T /\ v' \in { x \in Range(Smp(T)) : Representable(F, x) /\ NullsRestorable(F, T, x) } /\ kind' = "value"

Doc == Parsed(Pack(T, CxF(F), v))
Basic == Pack(T, DefaultCx, v)

\* ---- model theorems
\* nothing but the declared native types (and TOML's null omission) distinguishes the format document from the basic form
RECURSIVE SameModuloNative(_, _, _)
SameModuloNative(f, d, b) ==
  CASE d[1] = "list" -> b[1] = "list" /\ Len(d[2]) = Len(b[2]) /\ \A i \in DOMAIN d[2] : SameModuloNative(f, d[2][i], b[2][i])
    [] d[1] = "bag" -> b[1] = "bag" /\ Cardinality(d[2]) = Cardinality(b[2])
    [] d[1] = "dict" -> b[1] = "dict" /\ \A i \in DOMAIN d[2] : PairsHas(b[2], d[2][i][1]) /\ SameModuloNative(f, d[2][i][2], PairsGet(b[2], d[2][i][1]))
                        /\ \A k \in DOMAIN b[2] : PairsHas(d[2], b[2][k][1]) \/ (f = "toml" /\ IsNone(b[2][k][2]))
    [] d[1] \in {"datetime", "date", "time"} -> f = "toml" /\ b = S(IsoOf(d))
    [] d[1] = "bytes" -> f = "msgpack" /\ b[1] = "str"
    [] OTHER -> d = b
NothingElseDiffers == kind \in {"value", "dvalue"} => SameModuloNative(F, Doc, Basic)

EmitInv == /\ kind = "value" => PrintT(ToJson(<<"fvec", F, T, v, Doc>>))
           /\ kind = "dvalue" => PrintT(ToJson(<<"dfvec", F, DBaseF(F), T, DHoldF(F), v, Doc>>))
=============================================================================
