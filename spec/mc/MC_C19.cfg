INIT Init
NEXT Next
INVARIANT Once
INVARIANT PreBeforePost
INVARIANT EmitInv
INVARIANT FamOnce
INVARIANT EmitFam
