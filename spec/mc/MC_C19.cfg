INIT Init
NEXT Next
INVARIANT Once
INVARIANT PreBeforePost
INVARIANT EmitInv
