INIT Init
NEXT Next
INVARIANT RoundTrip
INVARIANT EmitInv
