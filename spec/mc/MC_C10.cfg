CONSTANTS
  Quick = TRUE
INIT Init
NEXT Next
INVARIANT ExactlyOne
INVARIANT SiblingFree
INVARIANT AliasFirst
INVARIANT EmitInv
