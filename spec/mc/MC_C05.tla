------------------------------- MODULE MC_C05 -------------------------------
(***************************************************************************)
(* C05 -- failures surface only as the documented exceptions and name the  *)
(* culprit.  Inputs: non-mappings, every single-field corruption /         *)
(* deletion / extra key of a valid input, and every PAIR of faults (so     *)
(* that "the first field in declaration order decides" is exercised), for  *)
(* a family of dataclasses (nested, defaulted, optional, forbid_extra_keys,*)
(* field-less).                                                            *)
(***************************************************************************)
EXTENDS Gen, Json

VARIABLES T, v, kind

PP(forbid) == <<"dc", "P", << <<"x", <<"int">>, <<"req">>, <<>> >>, <<"y", <<"str">>, <<"val", S("d")>>, <<>> >> >>,
               IF forbid THEN << <<"forbid_extra_keys", TRUE>> >> ELSE <<>> >>
DD(forbid, pforbid, plain) ==
  <<"dc", "D",
    << <<"a", <<"int">>, <<"req">>, <<>> >>,
       <<"b", PP(pforbid), <<"req">>, <<>> >>,
       <<"e", Color, <<"req">>, << <<"alias", "ee">> >> >>,
       <<"c", <<"list", <<"int">> >>, <<"fac", L(<<>>)>>, <<>> >>,
       <<"d", <<"opt", <<"date">> >>, <<"val", None>>, <<>> >> >>,
    (IF forbid THEN << <<"forbid_extra_keys", TRUE>> >> ELSE <<>>) \o (IF plain THEN << <<"mixin", "plain">> >> ELSE <<>>) >>
\* keyword-only fields may declare a defaulted field BEFORE a required one: "the first field in declaration order decides"
KW == <<"dc", "KW", << <<"p", <<"int">>, <<"val", I(0)>>, << <<"kw_only", TRUE>> >> >>,
                       <<"q", <<"date">>, <<"req">>, << <<"kw_only", TRUE>> >> >>,
                       <<"r", <<"int">>, <<"val", I(1)>>, << <<"kw_only", TRUE>> >> >>,
                       <<"s", <<"str">>, <<"req">>, << <<"kw_only", TRUE>> >> >> >>, <<>> >>
KWInputs == { Dct(SelectSeq(<< <<S("p"), vp>>, <<S("q"), vq>>, <<S("r"), vr>>, <<S("s"), vs>> >>, LAMBDA pr : pr[2] # <<"absent">>))
              : vp \in {I(3), S("garbage"), <<"absent">>}, vq \in {S("2024-01-02"), S("garbage"), <<"absent">>},
                vr \in {I(4), L(<<>>), <<"absent">>}, vs \in {S("t"), <<"absent">>} }
EE == <<"dc", "E", <<>>, <<>> >>
\* a GENERIC dataclass Box[T] (v: T, o: T = 5) whose type variable is bound to int -- by specialisation inside a holder, by
\* inheritance (IntBox(Box[int])) and directly: a field typed by a bound type variable is exactly as strict as the bound type
TV == <<"tvar", "T">>
GB(plain) == <<"dc", "Box", << <<"v", <<"int">>, <<"req">>, <<>> >>, <<"o", <<"int">>, <<"val", I(5)>>, <<>> >> >>,
               (IF plain THEN << <<"mixin", "plain">> >> ELSE <<>>) \o << <<"generic", << <<"T">>, << <<"int">> >>, << <<"v", TV>>, <<"o", TV>> >> >> >> >> >>
IntBox(plain) == <<"dc", "IntBox", DcFields(GB(plain)), (IF plain THEN << <<"mixin", "plain">> >> ELSE <<>>) \o << <<"bases", <<GB(plain)>> >> >> >>
GH(plain) == <<"dc", "GHold", << <<"b", GB(plain), <<"req">>, <<>> >>, <<"n", <<"int">>, <<"val", I(0)>>, <<>> >> >>, <<>> >>
\* (GB(FALSE) on its own is left out: the only entry point of a generic MIXIN class is Box.from_dict, where T is unbound)
GClasses == { GB(TRUE), IntBox(TRUE), IntBox(FALSE), GH(TRUE), GH(FALSE) }
GBInputs == { Dct(<< <<S("v"), I(3)>> >>), Dct(<< <<S("v"), None>> >>), Dct(<< <<S("v"), I(3)>>, <<S("o"), None>> >>), Dct(<< <<S("v"), S("bad")>> >>),
              Dct(<<>>), Dct(<< <<S("v"), None>>, <<S("o"), None>> >>), Dct(<< <<S("o"), I(1)>> >>) }
GInputsFor(C) == IF C[2] = "GHold" THEN { Dct(<< <<S("b"), j>> >>) : j \in GBInputs } \cup { Dct(<< <<S("b"), j>>, <<S("n"), None>> >>) : j \in GBInputs }
                 ELSE GBInputs
Classes == { DD(f, pf, pl) : f \in BOOLEAN, pf \in BOOLEAN, pl \in BOOLEAN } \cup { EE, PP(TRUE), PP(FALSE), KW } \cup GClasses

Valid == << <<S("a"), I(1)>>, <<S("b"), Dct(<< <<S("x"), I(2)>>, <<S("y"), S("q")>> >>)>>,
            <<S("c"), L(<<I(1), I(2)>>)>>, <<S("d"), S("2024-01-02")>>, <<S("ee"), S("r")>> >>
Garbage == { None, S("garbage"), L(<<>>), Dct(<<>>), <<"float", 15, -1>>, L(<<None>>), Dct(<< <<S("x"), S("bad")>> >>),
             Dct(<< <<S("x"), I(1)>>, <<S("zz"), I(1)>> >>), B(TRUE), S("1"), I(0) }
NonDicts == { None, I(1), S("s"), L(<<>>), L(<<I(1)>>), B(FALSE), <<"float", 0, 0>>, L(<< L(<<S("a"), I(1)>>) >>) }

\* a fault is <<"set", i, g>> (replace the value of key i), <<"del", i>>, <<"add", key>>
Faults == { <<"set", i, g>> : i \in 1..5, g \in Garbage } \cup { <<"del", i>> : i \in 1..5 } \cup { <<"add", "zz">>, <<"add", "e">> }
Apply(ps, f) ==
  CASE f[1] = "set" -> [ps EXCEPT ![f[2]] = <<ps[f[2]][1], f[3]>>]
    [] f[1] = "del" -> SelectSeq(ps, LAMBDA p : p # ps[f[2]])
    [] f[1] = "add" -> Append(ps, <<S(f[2]), I(7)>>)
SmallG == { None, S("garbage"), L(<<>>) }
Pairs == { <<f, g>> \in Faults \X Faults :
             /\ f[1] \in {"set", "del"} /\ g[1] \in {"set", "del", "add"}
             /\ (f[1] = "set" => f[3] \in SmallG) /\ (g[1] = "set" => g[3] \in SmallG)
             /\ (g[1] # "add" => f[2] < g[2]) }
Apply2(ps, f, g) == \* apply g (later key) first so that indexes stay valid
  IF g[1] = "add" THEN Apply(Apply(ps, f), g) ELSE Apply(Apply(ps, g), f)
DictInputs == { Dct(Valid) } \cup { Dct(Apply(Valid, f)) : f \in Faults } \cup { Dct(Apply2(Valid, p[1], p[2])) : p \in Pairs }
\* fewer keys than fields, one of them unexpected (the extra-keys check must not depend on the number of keys)
FewKeys == { Dct(<< <<S("zz"), I(1)>> >>), Dct(<< <<S("a"), I(1)>>, <<S("zz"), I(1)>> >>), Dct(<< <<S("x"), I(1)>>, <<S("zz"), I(1)>> >>),
             Dct(<< <<S("a"), I(1)>>, <<S("b"), Dct(<< <<S("zz"), I(1)>> >>)>>, <<S("ee"), S("r")>> >>) }
PInputs == { Dct(<< <<S("x"), I(2)>> >>), Dct(<< <<S("x"), S("bad")>> >>), Dct(<<>>), Dct(<< <<S("x"), I(1)>>, <<S("zz"), I(1)>> >>),
             Dct(<< <<S("y"), None>> >>), Dct(<< <<S("x"), None>>, <<S("y"), I(5)>> >>) }

InputsFor(C) == IF C \in GClasses THEN GInputsFor(C) \cup NonDicts
                ELSE IF C[2] = "KW" THEN KWInputs \cup NonDicts
                ELSE NonDicts \cup FewKeys \cup (IF C[2] = "D" THEN DictInputs ELSE PInputs \cup { Dct(Valid) })

Init == T = <<"start">> /\ v = <<"nov">> /\ kind = "start"
Next == \/ kind = "start" /\ T' \in Classes /\ v' = v /\ kind' = "type"
        \/ kind = "type" /\ T' = T /\ v' \in InputsFor(T) /\ kind' = "input"

Dec == Unpack(T, DefaultCx, v)

\* ---- the property on the model: the outcome is an instance or one of the documented errors,
\* and the reported field is the FIRST field in declaration order that is missing or invalid
Documented ==
  (kind = "input" /\ ~IsUnknown(Dec) /\ ~IsOk(Dec)) => Dec[2][1] \in {"ValueError", "Missing", "Invalid", "Extra"}
FieldIdx(C, n) == CHOOSE i \in DOMAIN DcFields(C) : FName(DcFields(C)[i]) = n
FirstDecides ==
  (kind = "input" /\ ~IsUnknown(Dec) /\ ~IsOk(Dec) /\ Dec[2][1] \in {"Missing", "Invalid"}) =>
     LET k == FieldIdx(T, Dec[2][2]) IN
     \A i \in 1..(k - 1) : LET f == DcFields(T)[i] key == S(FKeyByAlias(T, f)) IN
        IF PairsHas(v[2], key)
        THEN (IsNone(PairsGet(v[2], key)) /\ Nullable(f)) \/ IsOk(Unpack(FType(f), DefaultCx, PairsGet(v[2], key)))
        ELSE FDflt(f)[1] # "req"

EmitInv == kind = "input" => PrintT(ToJson(<<"inp", T, v, Dec>>))
=============================================================================
