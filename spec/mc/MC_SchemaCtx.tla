---------------------------- MODULE MC_SchemaCtx ----------------------------
(***************************************************************************)
(* Every sequence of <= MaxLen JSONSchemaBuilder.build / one-shot          *)
(* build_json_schema calls over a class table in which dataclasses are met *)
(* more than once (two fields of one class, a class reached through two    *)
(* parents, a class built on its own before / after its holder), for one   *)
(* builder configuration (dialect x all_refs x ref_prefix).  Every maximal *)
(* behaviour is exported with the expected references and definitions      *)
(* after each step and replayed against the real builder.                  *)
(***************************************************************************)
EXTENDS SchemaCtx, Json

CONSTANT MaxLen
VARIABLES defs, hist, last

F(n, t) == <<n, t, <<"req">>, <<>> >>
Plain == << <<"mixin", "plain">> >>
Addr  == <<"dc", "Addr", << F("street", <<"str">>) >>, Plain>>
Item  == <<"dc", "Item", << F("sku", <<"str">>), F("origin", <<"opt", Addr>>) >>, Plain>>
Order == <<"dc", "Order", << F("deliver_to", Addr), F("bill_to", <<"opt", Addr>>), F("items", <<"list", Item>>) >>, Plain>>
Subjects == { Addr, Item, Order, <<"list", Order>>, <<"dict", <<"str">>, Addr>>, <<"tuple", <<Addr, Item, Addr>> >> }

Init == defs = <<>> /\ hist = <<>> /\ last = <<"none">>

Build(T) == LET st == Visit(T, [defs |-> defs, out |-> {}]) IN
            /\ defs' = st.defs
            /\ last' = <<"build", st>>
            /\ hist' = Append(hist, <<"Build", T, st.out, [n \in DOMAIN st.defs |-> st.defs[n]]>>)
\* build_json_schema(T, with_definitions = wd) on a context of its own: the builder's context is untouched
OneShot(T, wd) == LET st == Visit(T, Fresh) IN
                  /\ defs' = defs
                  /\ last' = <<"oneshot", st>>
                  /\ hist' = Append(hist, <<"OneShot", T, wd, st.out, [n \in DOMAIN st.defs |-> st.defs[n]]>>)
Next == /\ Len(hist) < MaxLen
        /\ \/ \E T \in Subjects : Build(T)
           \/ \E T \in {Order, <<"list", Order>>}, wd \in BOOLEAN : OneShot(T, wd)
vars == <<defs, hist, last>>

\* ---- properties (C20: every $ref starts with the configured prefix and names a collected definition; builds accumulate consistently)
AllRefsNow == IF last[1] = "none" THEN {} ELSE RefsIn(last[2])
PrefixRespected == \A r \in AllRefsNow : r[1] = EffPrefix
RefsClosed == \A r \in AllRefsNow : r[2] \in DOMAIN last[2].defs
InlineCollectsNothing == ~RefMode => (defs = <<>> /\ AllRefsNow = {})
CollectsReachable == (last[1] = "build" /\ RefMode) => \A n \in Reach(hist[Len(hist)][2]) : n \in DOMAIN defs
DefsMonotone == [][\A n \in DOMAIN defs : n \in DOMAIN defs' /\ defs'[n] = defs[n]]_vars

EmitInv == (Len(hist) = MaxLen) => PrintT(ToJson(<<"beh", hist>>))
View == <<defs, hist>>
=============================================================================
