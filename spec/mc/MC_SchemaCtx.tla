---------------------------- MODULE MC_SchemaCtx ----------------------------
(***************************************************************************)
(* Every sequence of <= MaxLen JSONSchemaBuilder.build / one-shot          *)
(* build_json_schema calls over a class table in which dataclasses are met *)
(* more than once (two fields of one class, a class reached through two    *)
(* parents, a class built on its own before / after its holder), for one   *)
(* builder configuration (dialect x all_refs x ref_prefix).  Every maximal *)
(* behaviour is exported with the expected references and definitions      *)
(* after each step and replayed against the real builder.                  *)
(***************************************************************************)
EXTENDS SchemaCtx, Json

CONSTANT MaxLen
VARIABLES defs, hist, last

F(n, t) == <<n, t, <<"req">>, <<>> >>
Plain == << <<"mixin", "plain">> >>
Addr  == <<"dc", "Addr", << F("street", <<"str">>) >>, Plain>>
Item  == <<"dc", "Item", << F("sku", <<"str">>), F("origin", <<"opt", Addr>>) >>, Plain>>
Order == <<"dc", "Order", << F("deliver_to", Addr), F("bill_to", <<"opt", Addr>>), F("items", <<"list", Item>>) >>, Plain>>
Subjects == { Addr, Item, Order, <<"list", Order>>, <<"dict", <<"str">>, Addr>>, <<"tuple", <<Addr, Item, Addr>> >> }

Init == defs = <<>> /\ hist = <<>> /\ last = <<"none">>

\* last = << kind, walk state after the call, settings of the call, subject, definitions before the call >>
Build(T) == LET st == Visit(T, [defs |-> defs, out |-> {}]) IN
            /\ defs' = st.defs
            /\ last' = <<"build", st, Cfg0, T, defs>>
            /\ hist' = Append(hist, <<"Build", T, st.out, [n \in DOMAIN st.defs |-> st.defs[n]]>>)
\* build_json_schema(T, with_definitions = wd) on a context of its own: the builder's context is untouched
OneShot(T, wd) == LET st == Visit(T, Fresh) IN
                  /\ defs' = defs
                  /\ last' = <<"oneshot", st, Cfg0, T, <<>> >>
                  /\ hist' = Append(hist, <<"OneShot", T, wd, st.out, [n \in DOMAIN st.defs |-> st.defs[n]]>>)
\* build_json_schema(T, context = builder.context, <one keyword>): runs with the keyword applied, collects into the SHARED
\* definitions, and leaves the builder's own settings as they were -- the next Build runs with Cfg0 again
Shared(T, ov) == LET st == VisitC(T, [defs |-> defs, out |-> {}], OvCfg(ov)) IN
                 /\ defs' = st.defs
                 /\ last' = <<"shared", st, OvCfg(ov), T, defs>>
                 /\ hist' = Append(hist, <<"Shared", T, ov, st.out, [n \in DOMAIN st.defs |-> st.defs[n]]>>)
Overrides == {"inline", "refs", "prefix"}
Next == /\ Len(hist) < MaxLen
        /\ \/ \E T \in Subjects : Build(T)
           \/ \E T \in {Order, <<"list", Order>>}, wd \in BOOLEAN : OneShot(T, wd)
           \/ \E T \in {Order, Item}, ov \in Overrides : Shared(T, ov)
vars == <<defs, hist, last>>

\* ---- properties (C20: every $ref of a call starts with THAT CALL's prefix and names a collected definition; builds accumulate consistently)
\* the references of the document a call returns and of the definitions it (re)wrote
CallRefs == IF last[1] = "none" THEN {}
            ELSE last[2].out \cup (IF last[3].refmode THEN UNION { last[2].defs[n] : n \in Reach(last[4]) \cap DOMAIN last[2].defs } ELSE {})
PrefixRespected == \A r \in CallRefs : r[1] = last[3].prefix
RefsClosed == \A r \in CallRefs : r[2] \in DOMAIN last[2].defs
InlineCollectsNothing == (last[1] # "none" /\ ~last[3].refmode) => (last[2].out = {} /\ (last[1] = "oneshot" \/ last[2].defs = last[5]))
CollectsReachable == (last[1] \in {"build", "shared"} /\ last[3].refmode) => \A n \in Reach(last[4]) : n \in DOMAIN defs
\* a call with the builder's own settings never changes what an earlier such call collected; no call ever drops a definition
OwnSettingsOnly(h) == \A i \in DOMAIN h : h[i][1] = "Shared" => OvCfg(h[i][3]) = Cfg0
DefsMonotone == [][/\ \A n \in DOMAIN defs : n \in DOMAIN defs'
                   /\ OwnSettingsOnly(hist') => \A n \in DOMAIN defs : defs'[n] = defs[n]]_vars
EmitInv == (Len(hist) = MaxLen) => PrintT(ToJson(<<"beh", hist>>))
View == <<defs, hist>>
=============================================================================
