CONSTANTS
  MaxLen = 2
INIT Init
NEXT Next
INVARIANT ReprSafe
INVARIANT RawSafeWhenPlain
INVARIANT RawSpliceRefuted
INVARIANT ExactlyTheString
INVARIANT EmitInv
