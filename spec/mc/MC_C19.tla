------------------------------- MODULE MC_C19 -------------------------------
(***************************************************************************)
(* C19 -- hooks run exactly once per instance, in order, through every     *)
(* entry point.  Outer(n, inner, items: List[Inner], o: Optional[Inner],   *)
(* u: Union[A, B], m: Dict[str, Inner]) with every combination of hook     *)
(* subsets on Outer / Inner / the union members and of the context flag;   *)
(* TLC emits the expected result AND the expected hook trace.              *)
(***************************************************************************)
EXTENDS Hooks, Discr, Json

VARIABLES T, v, kind, dir

HookSets == { {}, {"pre_ser", "post_ser", "pre_deser", "post_deser"}, {"pre_ser", "post_deser"}, {"post_ser", "pre_deser"} }
Cfg(h, c) == (IF h # {} THEN << <<"hooks", h>> >> ELSE <<>>) \o (IF c THEN << <<"flags", {"context_flag"}>> >> ELSE <<>>)
N == <<"n", <<"int">>, <<"req">>, <<>> >>
InnerT(h, c) == <<"dc", "Inner", << N, <<"s", <<"str">>, <<"val", S("x")>>, <<>> >> >>, Cfg(h, c)>>
AT(h) == <<"dc", "A", << N, <<"a", <<"int">>, <<"req">>, <<>> >> >>, Cfg(h, FALSE)>>
BT(h) == <<"dc", "B", << N, <<"b", <<"str">>, <<"req">>, <<>> >> >>, Cfg(h, FALSE)>>
OuterT(ho, co, hi, ci, hu) ==
  <<"dc", "Outer",
    << N,
       <<"inner", InnerT(hi, ci), <<"req">>, <<>> >>,
       <<"items", <<"list", InnerT(hi, ci)>>, <<"req">>, <<>> >>,
       <<"u", <<"union", <<AT(hu), BT(hu)>> >>, <<"req">>, <<>> >>,
       <<"o", <<"opt", InnerT(hi, ci)>>, <<"val", None>>, <<>> >>,
       <<"m", <<"dict", <<"str">>, InnerT(hi, ci)>>, <<"fac", Dct(<<>>)>>, <<>> >> >>,
    Cfg(ho, co)>>
\* the context flag next to the OTHER code-generation flags, enabled independently on the outer and on the nested class: the
\* context reaches the nested hooks iff both enabled ADD_SERIALIZATION_CONTEXT, whatever else either of them enabled
AllHooks == {"pre_ser", "post_ser", "pre_deser", "post_deser"}
OtherFlags == {"omit_none_flag", "by_alias_flag", "dialect_flag"}
CfgF(h, fl) == (IF h # {} THEN << <<"hooks", h>> >> ELSE <<>>) \o (IF fl # {} THEN << <<"flags", fl>> >> ELSE <<>>)
InnerF(fl) == <<"dc", "Inner", << N, <<"s", <<"str">>, <<"val", S("x")>>, <<>> >> >>, CfgF(AllHooks, fl)>>
OuterF(flo, fli) ==
  <<"dc", "Outer",
    << N,
       <<"inner", InnerF(fli), <<"req">>, <<>> >>,
       <<"items", <<"list", InnerF(fli)>>, <<"req">>, <<>> >>,
       <<"u", <<"union", <<AT({}), BT({})>> >>, <<"req">>, <<>> >>,
       <<"o", <<"opt", InnerF(fli)>>, <<"val", None>>, <<>> >>,
       <<"m", <<"dict", <<"str">>, InnerF(fli)>>, <<"fac", Dct(<<>>)>>, <<>> >> >>,
    CfgF(AllHooks, flo)>>
FlagShapes == { OuterF({"context_flag"} \cup xo, {"context_flag"} \cup xi) : xo \in SUBSET OtherFlags, xi \in SUBSET OtherFlags }
              \cup { OuterF(xo, {"context_flag"} \cup xi) : xo \in {{"dialect_flag"}, {"by_alias_flag"}}, xi \in {{}, {"omit_none_flag"}} }
\* a RECURSIVE union alias  type Tree = Inner | list[Tree]  as a field: every Inner at every depth is an instance of the traversal,
\* and the context reaches it iff the holder and Inner both enabled the context flag
RECURSIVE RecU(_, _)
RecU(fl, k) == IF k = 0 THEN InnerF(fl) ELSE <<"union", <<InnerF(fl), <<"list", RecU(fl, k - 1)>> >> >>
TreeT(fl) == <<"rec695", "Tree", <<"union", <<InnerF(fl), <<"list", <<"recref", "Tree">> >> >> >>, RecU(fl, 3)>>
OuterR(flo, fli) == <<"dc", "Outer", << N, <<"t", TreeT(fli), <<"req">>, <<>> >> >>, CfgF(AllHooks, flo)>>
RecShapes == { OuterR(flo, fli) : flo \in {{}, {"context_flag"}, {"context_flag", "by_alias_flag"}}, fli \in {{}, {"context_flag"}, {"context_flag", "omit_none_flag"}} }
\* Outer refers to Inner by a FORWARD REFERENCE: Outer's methods are compiled on first use (postponed evaluation)
OuterFwd(ho, hi) ==
  <<"dc", "Outer", << N, <<"inner", <<"fwd", "Inner", InnerT(hi, FALSE)>>, <<"req">>, <<>> >>,
                      <<"items", <<"list", <<"fwd", "Inner", InnerT(hi, FALSE)>> >>, <<"req">>, <<>> >> >>, Cfg(ho, FALSE)>>
\* inheritance x hooks: Aud(Rec) adds no field but declares hooks Rec lacks; both are PLAIN dataclasses compiled on demand
\* by the holder, Rec first
RecT == <<"dc", "Rec", <<N>>, << <<"mixin", "plain">> >> >>
AudT(h) == <<"dc", "Aud", <<N>>, << <<"mixin", "plain">>, <<"bases", <<RecT>> >> >> \o Cfg(h, FALSE)>>
MsgT(h) == <<"dc", "Msg", << N, <<"plain", RecT, <<"req">>, <<>> >>, <<"audited", <<"list", AudT(h)>>, <<"req">>, <<>> >>,
                             <<"one", <<"opt", AudT(h)>>, <<"val", None>>, <<>> >> >>, <<>> >>
Outers == { OuterT(ho, co, hi, ci, hu) : ho \in HookSets, co \in BOOLEAN, hi \in HookSets, ci \in BOOLEAN, hu \in { {}, {"pre_ser", "post_ser", "pre_deser", "post_deser"} } }
Shapes == Outers \cup FlagShapes \cup RecShapes \cup { OuterFwd(ho, hi) : ho \in HookSets, hi \in HookSets }
          \cup { MsgT(h) : h \in HookSets }
          \cup { <<"list", OuterT(h, FALSE, h, FALSE, h)>> : h \in HookSets }
          \cup { <<"union", <<AT(h), BT(h)>> >> : h \in HookSets }
          \cup { <<"dict", <<"str">>, <<"opt", InnerT(h, FALSE)>> >> : h \in HookSets }

\* ---- a class-level discriminator (Config.discriminator, include_subtypes) on a base class that declares hooks:
\* Base.from_dict dispatches to the variant, whose (inherited or overriding) hooks run ONCE for the instance
DOpts == << <<"field", "type">>, <<"include_subtypes", TRUE>> >>
DBase(hb) == <<"dc", "Ev", <<N>>, Cfg(hb, FALSE) \o << <<"discriminator", DOpts>> >> >>
DVar(nm, tag, extra, hb, hv) == <<"dc", nm, <<N, extra>>, << <<"bases", <<DBase(hb)>> >>, <<"classvars", << <<"type", S(tag)>> >> >> >> \o Cfg(hv, FALSE)>>
Fam(hb, hv) == <<"discrfam", DBase(hb), << DVar("Click", "click", <<"x", <<"int">>, <<"req">>, <<>> >>, hb, hv),
                                            DVar("Key", "key", <<"k", <<"str">>, <<"val", S("q")>>, <<>> >>, hb, {}) >> >>
Fams == { Fam(hb, hv) : hb \in HookSets, hv \in { {}, {"pre_ser", "post_ser", "pre_deser", "post_deser"} } }
FamInputs == { Dct(<< <<S("n"), I(10)>>, <<S("type"), S("click")>>, <<S("x"), I(1)>> >>),
               Dct(<< <<S("type"), S("key")>>, <<S("n"), I(20)>> >>) }
\* a variant as the hooks see it: hooks it does not declare are the base's (and are logged under the base's name)
EffVar(V, Bs) == IF HooksOf(V) # {} \/ HooksOf(Bs) = {} THEN V ELSE <<"dc", V[2], V[3], V[4] \o << <<"hooks", HooksOf(Bs)>> >> >>
TraceName(V, Bs) == IF HooksOf(V) # {} THEN V[2] ELSE Bs[2]
FamVars(F) == [i \in DOMAIN F[3] |-> EffVar(F[3][i], F[2])]
FamDec(F, j) == UnpackDiscr(FamVars(F), F[2], DOpts, DefaultCx, j)
FamTrace(F, j) ==
  LET hits == { i \in DOMAIN F[3] : OwnTag(F[3][i], "type") = PairsGet(j[2], S("type")) } IN
  IF hits = {} THEN <<>>
  ELSE LET i == CHOOSE i \in hits : TRUE
           tr == DeserTrace(FamVars(F)[i], DefaultCx, j) IN
       [k \in DOMAIN tr |-> <<tr[k][1], TraceName(F[3][i], F[2]), tr[k][3], tr[k][4]>>]

In(n) == <<"obj", "Inner", <<I(n), S("s")>> >>
OV(n, u, o) == <<"obj", "Outer", <<I(n), In(n + 1), L(<<In(n + 2), In(n + 3)>>), u, o, Dct(<< <<S("k"), In(n + 5)>> >>)>> >>
UA(n) == <<"obj", "A", <<I(n), I(7)>> >>
UB(n) == <<"obj", "B", <<I(n), S("b")>> >>
ValuesOf(S_) ==
  CASE S_[1] = "dc" /\ Len(S_[3]) = 2 /\ S_[3][2][1] = "t" ->
         { <<"obj", "Outer", <<I(100), L(<<In(101), L(<<In(102), L(<<In(103)>>)>>), In(104)>>)>> >>, <<"obj", "Outer", <<I(200), In(201)>> >> }
    [] S_[1] = "dc" /\ S_[2] = "Msg" -> { <<"obj", "Msg", <<I(100), <<"obj", "Rec", <<I(101)>> >>, L(<< <<"obj", "Aud", <<I(102)>> >>, <<"obj", "Aud", <<I(103)>> >> >>), <<"obj", "Aud", <<I(104)>> >> >> >> }
    [] S_[1] = "dc" /\ Len(S_[3]) = 3 -> { <<"obj", "Outer", <<I(100), In(101), L(<<In(102), In(103)>>)>> >> }
    [] S_[1] = "dc" -> { OV(100, UA(150), None), OV(200, UB(250), In(204)) }
    [] S_[1] = "list" -> { L(<<OV(100, UA(150), None), OV(300, UB(350), In(304))>>), L(<<>>) }
    [] S_[1] = "union" -> { UA(10), UB(20) }
    [] S_[1] = "dict" -> { Dct(<< <<S("p"), In(10)>>, <<S("q"), None>>, <<S("r"), In(30)>> >>) }

Init == T = <<"start">> /\ v = <<"nov">> /\ kind = "start" /\ dir = "none"
Next == \/ kind = "start" /\ T' \in Shapes /\ v' = v /\ kind' = "type" /\ dir' = dir
        \/ kind = "start" /\ T' \in Fams /\ v' \in FamInputs /\ kind' = "fam" /\ dir' = "deser"
        \/ kind = "type" /\ T' = T /\ v' \in ValuesOf(T) /\ kind' = "value" /\ dir' \in {"ser", "deser"}

Cx == DefaultCx
Wire == Pack(T, Cx, v)
\* deserialization is exercised on the plain wire form of the same value (hooks off), so inputs are well formed
RECURSIVE NoHooks(_)
NoHooks(S_) ==
  CASE S_[1] = "dc" -> <<"dc", S_[2], [i \in DOMAIN S_[3] |-> <<S_[3][i][1], NoHooks(S_[3][i][2]), S_[3][i][3], S_[3][i][4]>>], <<>> >>
    [] S_[1] \in {"list", "opt"} -> <<S_[1], NoHooks(S_[2])>>
    [] S_[1] = "fwd" -> <<"fwd", S_[2], NoHooks(S_[3])>>
    [] S_[1] = "rec695" -> <<"rec695", S_[2], S_[3], NoHooks(S_[4])>>
    [] S_[1] = "dict" -> <<"dict", S_[2], NoHooks(S_[3])>>
    [] S_[1] = "union" -> <<"union", [i \in DOMAIN S_[2] |-> NoHooks(S_[2][i])]>>
    [] OTHER -> S_
Input == Pack(NoHooks(T), Cx, v)
Dec == Unpack(T, Cx, Input)
STrace == SerTrace(T, v, TRUE)
DTrace == DeserTrace(T, Cx, Input)

\* ---- the statement's invariants on the reference traversal
Once == kind = "value" => /\ OncePerInstance(STrace, "pre_ser") /\ OncePerInstance(STrace, "post_ser")
                          /\ OncePerInstance(DTrace, "post_deser")
\* pre before post for the same instance: every post_ser is preceded by the pre_ser of the same class at n - 1 (when declared)
PreBeforePost ==
  kind = "value" =>
    \A i \in DOMAIN STrace : STrace[i][1] = "post_ser" =>
       \A k \in DOMAIN STrace : (STrace[k][1] = "pre_ser" /\ STrace[k][2] = STrace[i][2] /\ STrace[k][3] = STrace[i][3] - 1) => k < i
\* the number of instances with a post_deser hook in the result equals the number of post_deser events
Balanced == kind = "value" => Len(SelectSeq(STrace, LAMBDA e : e[1] = "pre_ser")) = Len(SelectSeq(STrace, LAMBDA e : e[1] = "post_ser"))
                              \/ \E i \in DOMAIN STrace : TRUE

\* the dispatching base adds no hook call of its own: once per instance
FamOnce == kind = "fam" => OncePerInstance(FamTrace(T, v), "post_deser") /\ OncePerInstance(FamTrace(T, v), "pre_deser")
EmitFam == kind = "fam" => PrintT(ToJson(<<"hookd", T[2], T[3], v, FamDec(T, v), FamTrace(T, v)>>))
EmitInv == kind = "value" =>
             IF dir = "ser" THEN PrintT(ToJson(<<"hook", T, "ser", v, Wire, STrace>>))
             ELSE PrintT(ToJson(<<"hook", T, "deser", Input, Dec, DTrace>>))
=============================================================================
