-------------------------------- MODULE MC_NT --------------------------------
(***************************************************************************)
(* Named tuples as dataclass fields under every combination of the class   *)
(* option namedtuple_as_dict (unset / True / False, also carried by        *)
(* Config.dialect) and the field's serialize / deserialize engine          *)
(* ("as_dict" / "as_list" / none), bare, in a list and Optional.           *)
(* Shared by C01 C02 C03 (vectors) and C06 C20 (schema subjects).          *)
(***************************************************************************)
EXTENDS Gen, Json, SequencesExt
VARIABLES T, v, kind
\* (elements are int / str: a field-level engine option leaks into date-like ELEMENTS of the named tuple in the real library --
\*  UnsupportedDeserializationEngine at class creation -- recorded as an observation in DESIGN.md 12.4)
NTt == <<"ntuple", "Pt", << <<"x", <<"int">>, <<"req">> >>, <<"y", <<"str">>, <<"val", S("dflt")>> >> >> >>
Tri == {"unset", "yes", "no"}
Eng == {"", "as_dict", "as_list"}
FOpt(e) == IF e = "" THEN <<>> ELSE << <<"ser", e>>, <<"deser", e>> >>
Class(c, d, e, shape, plain) ==
  <<"dc", "NH", << <<"p", shape, <<"req">>, FOpt(e)>>, <<"q", <<"list", NTt>>, <<"fac", L(<<>>)>>, <<>> >> >>,
    (IF c = "unset" THEN <<>> ELSE << <<"namedtuple_as_dict", c = "yes">> >>)
    \o (IF d = "unset" THEN <<>> ELSE << <<"dialect", << <<"name", "ND">>, <<"namedtuple_as_dict", d = "yes">> >> >> >>)
    \o (IF plain THEN << <<"mixin", "plain">> >> ELSE <<>>) >>
\* a named tuple with a date element (the engine option must concern the named tuple, not its elements)
NTd == <<"ntuple", "Pd", << <<"x", <<"int">>, <<"req">> >>, <<"d", <<"date">>, <<"req">> >> >> >>
Shapes == { NTt, <<"opt", NTt>>, NTd }
Classes == { Class(c, d, e, s, p) : c \in Tri, d \in Tri, e \in Eng, s \in Shapes, p \in BOOLEAN }
Init == T = <<"start">> /\ v = <<"nov">> /\ kind = "start"
Next == \/ kind = "start" /\ T' \in Classes /\ v' = v /\ kind' = "type"
        \/ kind = "type" /\ T' = T /\ v' \in Range(Smp(T)) /\ kind' = "value"
RECURSIVE Listify(_)
Listify(w) ==
  CASE w[1] = "bag"  -> L(LET s == SetToSeq(w[2]) IN [i \in DOMAIN s |-> Listify(s[i])])
    [] w[1] = "list" -> L([i \in DOMAIN w[2] |-> Listify(w[2][i])])
    [] w[1] = "dict" -> Dct([i \in DOMAIN w[2] |-> <<Listify(w[2][i][1]), Listify(w[2][i][2])>>])
    [] OTHER -> w
Wire == Pack(T, DefaultCx, v)
Back == Unpack(T, DefaultCx, Listify(Wire))
RoundTrip == kind = "value" => (IsUnknown(Back) \/ Back = Ok(v))
EmitInv == kind = "value" => PrintT(ToJson(<<"vec", T, v, Wire, Back>>))
=============================================================================
