-------------------------------- MODULE MC_NT --------------------------------
(***************************************************************************)
(* Named tuples as dataclass fields under every combination of the class   *)
(* option namedtuple_as_dict (unset / True / False, also carried by        *)
(* Config.dialect) and the field's serialize / deserialize engine          *)
(* ("as_dict" / "as_list" / none), bare, in a list and Optional.           *)
(* Shared by C01 C02 C03 (vectors) and C06 C20 (schema subjects).          *)
(***************************************************************************)
EXTENDS Gen, Json, SequencesExt
VARIABLES T, v, kind
\* (elements are int / str: a field-level engine option leaks into date-like ELEMENTS of the named tuple in the real library --
\*  UnsupportedDeserializationEngine at class creation -- recorded as an observation in DESIGN.md 12.4)
NTt == <<"ntuple", "Pt", << <<"x", <<"int">>, <<"req">> >>, <<"y", <<"str">>, <<"val", S("dflt")>> >> >> >>
Tri == {"unset", "yes", "no"}
Eng == {"", "as_dict", "as_list"}
FOpt(e) == IF e = "" THEN <<>> ELSE << <<"ser", e>>, <<"deser", e>> >>
Class(c, d, e, shape, plain) ==
  <<"dc", "NH", << <<"p", shape, <<"req">>, FOpt(e)>>, <<"q", <<"list", NTt>>, <<"fac", L(<<>>)>>, <<>> >> >>,
    (IF c = "unset" THEN <<>> ELSE << <<"namedtuple_as_dict", c = "yes">> >>)
    \o (IF d = "unset" THEN <<>> ELSE << <<"dialect", << <<"name", "ND">>, <<"namedtuple_as_dict", d = "yes">> >> >> >>)
    \o (IF plain THEN << <<"mixin", "plain">> >> ELSE <<>>) >>
\* a named tuple with a date element (the engine option must concern the named tuple, not its elements)
NTd == <<"ntuple", "Pd", << <<"x", <<"int">>, <<"req">> >>, <<"d", <<"date">>, <<"req">> >> >> >>
\* every element defaulted: in the list representation trailing items may be left out, in the dict representation every key is needed
NT3 == <<"ntuple", "P3", << <<"x", <<"int">>, <<"val", I(0)>> >>, <<"y", <<"int">>, <<"val", I(0)>> >>, <<"z", <<"int">>, <<"val", I(0)>> >> >> >>
Shapes == { NTt, <<"opt", NTt>>, NTd, NT3 }
\* foreign inputs for the field p (both representations meet both kinds of input): absent / surplus / invalid items in every position
PInputs == { Dct(<< <<S("y"), S("garbage")>>, <<S("z"), I(3)>> >>), Dct(<< <<S("x"), I(1)>>, <<S("y"), I(2)>>, <<S("z"), I(3)>> >>),
             Dct(<< <<S("x"), I(1)>> >>), Dct(<<>>), Dct(<< <<S("x"), I(1)>>, <<S("y"), S("garbage")>>, <<S("z"), I(3)>> >>),
             Dct(<< <<S("x"), S("garbage")>>, <<S("y"), S("s")>> >>), Dct(<< <<S("x"), I(1)>>, <<S("y"), S("s")>> >>), Dct(<< <<S("y"), S("s")>> >>),
             L(<<>>), L(<<I(1)>>), L(<<I(1), S("garbage")>>), L(<<I(1), I(2), I(3)>>), L(<<I(1), I(2), I(3), I(4)>>), L(<<S("garbage"), I(2)>>),
             None, S("ab") }
Classes == { Class(c, d, e, s, p) : c \in Tri, d \in Tri, e \in Eng, s \in Shapes, p \in BOOLEAN }
Init == T = <<"start">> /\ v = <<"nov">> /\ kind = "start"
Next == \/ kind = "start" /\ T' \in Classes /\ v' = v /\ kind' = "type"
        \/ kind = "type" /\ T' = T /\ v' \in Range(Smp(T)) /\ kind' = "value"
        \/ kind = "type" /\ T' = T /\ v' \in { Dct(<< <<S("p"), j>> >>) : j \in PInputs } /\ kind' = "input"
RECURSIVE Listify(_)
Listify(w) ==
  CASE w[1] = "bag"  -> L(LET s == SetToSeq(w[2]) IN [i \in DOMAIN s |-> Listify(s[i])])
    [] w[1] = "list" -> L([i \in DOMAIN w[2] |-> Listify(w[2][i])])
    [] w[1] = "dict" -> Dct([i \in DOMAIN w[2] |-> <<Listify(w[2][i][1]), Listify(w[2][i][2])>>])
    [] OTHER -> w
Wire == Pack(T, DefaultCx, v)
Back == Unpack(T, DefaultCx, Listify(Wire))
RoundTrip == kind = "value" => (IsUnknown(Back) \/ Back = Ok(v))
Dec == Unpack(T, DefaultCx, v)
EmitInv == /\ kind = "value" => PrintT(ToJson(<<"vec", T, v, Wire, Back>>))
           /\ kind = "input" => PrintT(ToJson(<<"inp", T, v, Dec>>))
=============================================================================
