CONSTANTS
  Dialect = "draft"
  AllRefs = "yes"
  Prefix = "unset"
  Mode = "documented"
  MaxLen = 3
INIT Init
NEXT Next
INVARIANT PrefixRespected
INVARIANT RefsClosed
INVARIANT InlineCollectsNothing
INVARIANT CollectsReachable
INVARIANT EmitInv
PROPERTY DefsMonotone
VIEW View
