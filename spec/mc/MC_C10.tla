------------------------------- MODULE MC_C10 -------------------------------
(***************************************************************************)
(* C10 -- the most specific customisation wins.                            *)
(* One field f: NewType("NTy", List[date]).  Registrations can be enabled   *)
(* simultaneously at: the field's serialize/deserialize option, the field's *)
(* serialization_strategy, and {call dialect, Config.dialect,               *)
(* Config.serialization_strategy} x {NewType key, exact type, generic       *)
(* origin}.  Every registration tags its output with its own identity, so   *)
(* the observable names the winner.  TLC enumerates EVERY subset of the 11  *)
(* registrations (all providing both directions), and for every subset the  *)
(* variants in which the winner is direction-less or pass_through.          *)
(* Codec entry point: default_dialect x 3 keys.                            *)
(***************************************************************************)
EXTENDS Gen, Json

CONSTANT Quick
VARIABLES T, v, kind, call

LD == <<"list", <<"date">> >>
NTt == <<"newtype", "NTy", LD>>
KeyTerm(k) == CASE k = "nt" -> NTt [] k = "ex" -> LD [] k = "or" -> <<"origin", "list">>
Keys == {"nt", "ex", "or"}
Levels == {"cd", "gd", "cs"}            \* call dialect, Config.dialect, Config.serialization_strategy
Regs == {"fo", "fs"} \cup { l \o "_" \o k : l \in Levels, k \in Keys }
Modes == {"both", "ser", "deser", "pt"}
Strat(id, mode) == IF mode = "pt" THEN <<"pass_through">> ELSE <<"mark", id, mode>>

\* mode assignment: a function from the enabled registrations to modes
TableFor(l, m) == LET ks == SelectSeq(<<"nt", "ex", "or">>, LAMBDA k : (l \o "_" \o k) \in DOMAIN m) IN
                  [i \in DOMAIN ks |-> <<KeyTerm(ks[i]), Strat(l \o "_" \o ks[i], m[l \o "_" \o ks[i]])>>]
FieldOptsOf(m) ==
  (IF "fo" \in DOMAIN m /\ m["fo"] \in {"both", "ser"} THEN << <<"fser", <<"mark", "fo", "ser">> >> >> ELSE <<>>)
  \o (IF "fo" \in DOMAIN m /\ m["fo"] \in {"both", "deser"} THEN << <<"fdeser", <<"mark", "fo", "deser">> >> >> ELSE <<>>)
  \o (IF "fs" \in DOMAIN m THEN << <<"strategy", Strat("fs", m["fs"])>> >> ELSE <<>>)
\* shape "one": the field alone;  "fg" / "gf": a sibling field g of the SAME type (same three type keys) without any field-level
\* registration, declared after / before f -- field-level registrations belong to their field, whatever the declaration order
Shapes == {"one", "fg", "gf"}
FieldsOf(m, sh) == LET f == <<"f", NTt, <<"req">>, FieldOptsOf(m)>>  g == <<"g", NTt, <<"req">>, <<>> >> IN
                   CASE sh = "one" -> <<f>> [] sh = "fg" -> <<f, g>> [] sh = "gf" -> <<g, f>>
Class(m, sh) ==
  <<"dc", "C", FieldsOf(m, sh),
    << <<"flags", {"dialect_flag"}>> >>
    \o (IF TableFor("gd", m) # <<>> THEN << <<"dialect", << <<"name", "GD">>, <<"strategy", TableFor("gd", m)>> >> >> >> ELSE <<>>)
    \o (IF TableFor("cs", m) # <<>> THEN << <<"cfg_strategy", TableFor("cs", m)>> >> ELSE <<>>) >>
CallDialect(m) == IF TableFor("cd", m) # <<>> THEN << <<"name", "CD">>, <<"strategy", TableFor("cd", m)>> >> ELSE <<>>

\* all-"both" assignments for every subset, plus winner-variants
AllBoth == { [r \in R |-> "both"] : R \in SUBSET Regs }
\* "fo" cannot be pass_through (it is a plain callable option)
VModes(r) == IF r = "fo" THEN {"ser", "deser"} ELSE {"ser", "deser", "pt"}
Variants(m) == UNION { { [m EXCEPT ![r] = md] : md \in VModes(r) } : r \in DOMAIN m }
Small == { m \in AllBoth : Cardinality(DOMAIN m) <= 2 \/ Cardinality(DOMAIN m) >= 10 }
Assignments == IF Quick THEN AllBoth \cup UNION { Variants(m) : m \in Small }
               ELSE AllBoth \cup UNION { Variants(m) : m \in AllBoth }

DV == L(<< <<"date", 2024, 2, 29>> >>)
DJ == L(<< S("2024-02-29") >>)
Value(sh) == <<"obj", "C", IF sh = "one" THEN <<DV>> ELSE <<DV, DV>> >>
Input(sh) == Dct(CASE sh = "one" -> << <<S("f"), DJ>> >> [] sh = "fg" -> << <<S("f"), DJ>>, <<S("g"), DJ>> >> [] sh = "gf" -> << <<S("g"), DJ>>, <<S("f"), DJ>> >>)
ShapeOf(C) == IF Len(C[3]) = 1 THEN "one" ELSE IF C[3][1][1] = "f" THEN "fg" ELSE "gf"

CxOf(m) == [DefaultCx EXCEPT !.dlct = CallDialect(m)]
CallOpts(m) == IF CallDialect(m) # <<>> THEN << <<"dialect", CallDialect(m)>> >> ELSE <<>>

\* ---- Annotated alias keys inside a GENERIC class: Box[T] declares  a: Annotated[T, "m"]; at Box[date] the position is
\* Annotated[date, "m"], so a registration under that alias is the most specific key, then the exact key date -- at the three
\* levels, with Box specialised inside a holder and by inheritance (DateBox(Box[date]))
AD == <<"annotated", <<"date">>, "m">>
AKey(k) == IF k = "al" THEN AD ELSE <<"date">>
ARegs == { l \o "_" \o k : l \in Levels, k \in {"al", "ex"} }
ATable(l, R) == LET ks == SelectSeq(<<"al", "ex">>, LAMBDA k : (l \o "_" \o k) \in R) IN
                [i \in DOMAIN ks |-> <<AKey(ks[i]), <<"mark", l \o "_" \o ks[i], "both">> >>]
ABoxCfg(R) == << <<"flags", {"dialect_flag"}>> >>
              \o (IF ATable("gd", R) # <<>> THEN << <<"dialect", << <<"name", "GD">>, <<"strategy", ATable("gd", R)>> >> >> >> ELSE <<>>)
              \o (IF ATable("cs", R) # <<>> THEN << <<"cfg_strategy", ATable("cs", R)>> >> ELSE <<>>)
ABox(R) == <<"dc", "Box", << <<"a", AD, <<"req">>, <<>> >>, <<"l", <<"list", <<"date">> >>, <<"fac", L(<<>>)>>, <<>> >> >>,
             ABoxCfg(R) \o << <<"generic", << <<"T">>, << <<"date">> >>, << <<"a", <<"annotated", <<"tvar", "T">>, "m">> >>, <<"l", <<"list", <<"tvar", "T">> >> >> >> >> >> >> >>
AHold(R) == <<"dc", "AH", << <<"b", ABox(R), <<"req">>, <<>> >> >>, << <<"flags", {"dialect_flag"}>> >> >>
ASub(R) == <<"dc", "DateBox", DcFields(ABox(R)), ABoxCfg(R) \o << <<"bases", <<ABox(R)>> >> >> >>
ACall(R) == IF ATable("cd", R) # <<>> THEN << <<"name", "CD">>, <<"strategy", ATable("cd", R)>> >> ELSE <<>>
ADate == <<"date", 2024, 2, 29>>
AValue(C) == IF C[2] = "AH" THEN <<"obj", "AH", << <<"obj", "Box", <<ADate, L(<<ADate>>)>> >> >> >> ELSE <<"obj", "DateBox", <<ADate, L(<<ADate>>)>> >>
AInput(C) == LET d == Dct(<< <<S("a"), S("2024-02-29")>>, <<S("l"), L(<<S("2024-02-29")>>)>> >>) IN IF C[2] = "AH" THEN Dct(<< <<S("b"), d>> >>) ELSE d
IsA(C) == C[2] \in {"AH", "DateBox"}
Init == T = <<"start">> /\ v = <<"nov">> /\ kind = "start" /\ call = <<>>
Next == \/ kind = "start" /\ \E m \in Assignments, sh \in Shapes : T' = Class(m, sh) /\ call' = CallDialect(m) /\ v' = v /\ kind' = "type"
        \/ kind = "start" /\ \E R \in SUBSET ARegs, hold \in BOOLEAN : T' = (IF hold THEN AHold(R) ELSE ASub(R)) /\ call' = ACall(R) /\ v' = v /\ kind' = "type"
        \/ kind = "type" /\ T' = T /\ call' = call /\ v' = (IF IsA(T) THEN AValue(T) ELSE Value(ShapeOf(T))) /\ kind' = "value"
        \/ kind = "type" /\ T' = T /\ call' = call /\ v' = (IF IsA(T) THEN AInput(T) ELSE Input(ShapeOf(T))) /\ kind' = "input"

Cx == [DefaultCx EXCEPT !.dlct = call]
Wire == Pack(T, Cx, v)
Dec == Unpack(T, Cx, v)
COpts == IF call # <<>> THEN << <<"dialect", call>> >> ELSE <<>>

\* ---- model theorem: exactly one level applies -- the output is the built-in rendering, the untouched
\* value (pass_through) or ONE marker
Rendered(w) == w \in { L(<<S("2024-02-29")>>), L(<< <<"date", 2024, 2, 29>> >>) } \/ (w[1] = "str")
ExactlyOne == (kind = "value" /\ ~IsA(T)) => \A i \in DOMAIN Wire[2] : Rendered(Wire[2][i][2])
\* a field without field-level registrations is rendered exactly as if it were alone in the class
SiblingFree == (kind = "value" /\ ~IsA(T) /\ ShapeOf(T) # "one") =>
                 LET alone == <<"dc", "C", << <<"g", NTt, <<"req">>, <<>> >> >>, T[4]>> IN
                 PairsGet(Wire[2], S("g")) = PairsGet(Pack(alone, Cx, <<"obj", "C", <<DV>> >>)[2], S("g"))

\* the alias registration of the highest level wins over every exact registration; without one, the exact key decides
AliasFirst ==
  (kind = "value" /\ IsA(T)) =>
     LET doc == IF T[2] = "AH" THEN PairsGet(Wire[2], S("b")) ELSE Wire
         a == PairsGet(doc[2], S("a")) IN
     a[1] = "str" /\ (a # S("2024-02-29") => \E l \in Levels, k \in {"al", "ex"} : a = S("S" \o l \o "_" \o k))

EmitInv == /\ kind = "value" => PrintT(ToJson(<<"vec", T, v, Wire, <<"unknown">>, COpts>>))
           /\ kind = "input" => PrintT(ToJson(<<"inp", T, v, Dec, {}, COpts>>))
=============================================================================
