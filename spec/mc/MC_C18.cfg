INIT Init
NEXT Next
INVARIANT DefaultSharesNothing
INVARIANT OnlyListed
INVARIANT EmitInv
