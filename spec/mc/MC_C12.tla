------------------------------- MODULE MC_C12 -------------------------------
(***************************************************************************)
(* C12 -- discriminated unions pick exactly the tagged class in any        *)
(* definition order.  State machine over histories of                      *)
(*   Define(c)           a subclass is defined (its parent exists)         *)
(*   CreateDecoder       the codec site is created (Site = "codec")        *)
(*   Deserialize(input)  through the site under test                       *)
(* with an implementation-level lazily filled registry (hit / refill on    *)
(* miss) checked against the abstract choice "the eligible class carrying  *)
(* the tag among the classes defined so far".  Every maximal history is    *)
(* exported and replayed against the real library.                         *)
(***************************************************************************)
EXTENDS Discr, Json

CONSTANTS Site,        \* "config" | "field" | "codec"
          WithField,   \* TRUE: discriminator has a field
          Supertypes,  \* include_supertypes
          MaxLen,
          RegMode,
          Faults,      \* TRUE: the input alphabet of C05 (variant found, but its own field missing / invalid)
          Walk,        \* "recursive" (what the documentation promises) | "direct" (deviant: direct subclasses only)
          Shared,      \* TRUE: the Discriminator OBJECT of the site is one project-wide constant that an UNRELATED class (Oth) also uses as
                       \* its Config.discriminator -- defining (compiling) Oth at any point of the history changes nothing for the site
          Tagger,      \* "none" | "one" | "two": the discriminator carries a variant_tagger_fn returning one tag / a list of two tags
          Nested       \* TRUE: a variant N (tag "n") that declares its OWN class-level discriminator on field "kind" (two dispatch levels)
VARIABLES defined, registry, registry2, decoder, hist, last
\* Site = "pair": ONE field  f: Tuple[Annotated[R, D], Annotated[R2, D]]  with two EQUAL discriminators over two
\* different hierarchies that share a tag ("a"): each position must resolve inside its own hierarchy (registry / registry2).
\* RegMode = "perposition" (each discriminated position owns its tag map) | "shared" (deviant: one map for equal discriminators)

DOpts == (IF WithField THEN << <<"field", "type">> >> ELSE <<>>)
         \o << <<"include_subtypes", TRUE>> >> \o (IF Supertypes THEN << <<"include_supertypes", TRUE>> >> ELSE <<>>)
         \o (IF Shared THEN << <<"shared", "D1">> >> ELSE <<>>)
         \o (IF Tagger # "none" THEN << <<"tagger", Tagger>> >> ELSE <<>>)

CV(t) == << <<"classvars", << <<"type", S(t)>> >> >> >>
RootFields == << <<"v", <<"int">>, <<"req">>, <<>> >> >>
Root == <<"dc", "R", RootFields,
          CV("r") \o (IF Site = "config" THEN << <<"discriminator", DOpts>>, <<"discr_field", "type">> >> ELSE <<>>) >>
Sub(name, parent, extra, tag) ==
  <<"dc", name, DcFields(parent) \o extra, << <<"bases", <<parent>> >> >> \o (IF tag = "" THEN <<>> ELSE CV(tag)) >>
Req(n) == <<n, <<"int">>, <<"req">>, <<>> >>
CA  == Sub("A", Root, <<Req("x")>>, "a")
CB  == Sub("B", Root, <<Req("y")>>, "b")
CA1 == Sub("A1", CA, <<Req("z")>>, "a1")
CX  == Sub("X", Root, <<Req("w")>>, "")          \* no tag in its own namespace: not eligible by tag
Root2 == <<"dc", "R2", RootFields, CV("r2")>>
Sub2(name, extra, tag) == <<"dc", name, RootFields \o extra, << <<"bases", <<Root2>> >> >> \o CV(tag)>>
CA2 == Sub2("A2", <<Req("x")>>, "a")
CC2 == Sub2("C2", <<Req("y")>>, "c")
\* two levels: R --type--> N --kind--> N1 / N2.  N's own Config carries Discriminator(field="kind", include_subtypes=True)
KOpts == << <<"field", "kind">>, <<"include_subtypes", TRUE>> >>
CN  == <<"dc", "N", RootFields \o <<Req("x")>>, << <<"bases", <<Root>> >> >> \o CV("n") \o << <<"discriminator", KOpts>>, <<"discr_field", "kind">> >> >>
KV(t) == << <<"classvars", << <<"kind", S(t)>> >> >> >>
CN1 == <<"dc", "N1", DcFields(CN) \o <<Req("z")>>, << <<"bases", <<CN>> >> >> \o KV("k1")>>
CN2 == <<"dc", "N2", DcFields(CN) \o <<Req("y")>>, << <<"bases", <<CN>> >> >> \o KV("k2")>>
Oth == <<"dc", "Oth", RootFields, << <<"discriminator", DOpts>>, <<"discr_field", "type">> >> >>
Candidates == IF Shared THEN {CA, CB, Oth} ELSE IF Nested THEN {CA, CN, CN1, CN2} ELSE IF Site = "pair" THEN {CA, CB, CA2, CC2} ELSE {CA, CB, CA1, CX}

HolderT == IF Site = "pair"
           THEN <<"dc", "HD", << <<"f", <<"tuple", << <<"discr", Root, DOpts>>, <<"discr", Root2, DOpts>> >> >>, <<"req">>, <<>> >> >>, <<>> >>
           \* Site = "fieldopt" / "fieldlist": the Annotated carrying the Discriminator wraps the base INDIRECTLY --
           \* Annotated[Optional[R], D] / Annotated[List[R], D]: the discriminated position is the class inside
           ELSE IF Site = "fieldopt" THEN <<"dc", "HD", << <<"f", <<"discr", <<"opt", Root>>, DOpts>>, <<"req">>, <<>> >> >>, <<>> >>
           ELSE IF Site = "fieldlist" THEN <<"dc", "HD", << <<"f", <<"discr", <<"list", Root>>, DOpts>>, <<"req">>, <<>> >> >>, <<>> >>
           ELSE <<"dc", "HD", << <<"f", <<"discr", Root, DOpts>>, <<"req">>, <<>> >> >>, <<>> >>
FieldSites == {"field", "fieldopt", "fieldlist"}
WrapIn(j) == IF Site = "fieldlist" THEN L(<<j>>) ELSE j
WrapOut(x) == IF Site = "fieldlist" THEN L(<<x>>) ELSE x
HolderOf(r, j) == IF Site = "fieldopt" /\ IsNone(j) THEN Ok(<<"obj", "HD", <<None>> >>)
                  ELSE IF IsOk(r) THEN Ok(<<"obj", "HD", <<WrapOut(r[2])>> >>) ELSE Err(<<"Invalid", "f", WrapIn(j), "HD">>)

Body(t) == << <<S("v"), I(0)>>, <<S("x"), I(1)>>, <<S("y"), I(2)>>, <<S("z"), I(3)>>, <<S("w"), I(4)>> >>
           \o (IF t = "" THEN <<>> ELSE << <<S("type"), S(t)>> >>)
NBody(t, k) == Body(t) \o (IF k = "" THEN <<>> ELSE << <<S("kind"), S(k)>> >>)
TaggerInputs == { Dct(Body(t)) : t \in {"t_A", "u_A", "t_B", "t_A1", "u_A1", "t_X", "t_R", "a", "zz", ""} }
NestedInputs == { Dct(NBody("n", "k1")), Dct(NBody("n", "k2")), Dct(NBody("n", "")), Dct(NBody("n", "zz")), Dct(NBody("a", "")), Dct(NBody("", "k1")) }
PairInputs == { L(<<Dct(Body(t1)), Dct(Body(t2))>>) : t1 \in {"a", "b", "c", "zz"}, t2 \in {"a", "b", "c", "zz"} }
Inputs == IF Tagger # "none" THEN TaggerInputs ELSE IF Nested THEN NestedInputs ELSE IF Site = "pair" THEN PairInputs ELSE IF WithField
          THEN (IF Faults
                THEN \* the tag names an existing variant whose OWN required key is absent / ill-typed: the variant's MissingField /
                     \* InvalidFieldValue must surface (not "no such variant") -- whether the registry is cold or warm (C05)
                     { Dct(Body("a")), Dct(Body("zz")), Dct(Body("")),
                       Dct(<< <<S("v"), I(0)>>, <<S("type"), S("a")>> >>), Dct(<< <<S("v"), I(0)>>, <<S("x"), I(1)>>, <<S("type"), S("a1")>> >>),
                       Dct(<< <<S("v"), I(0)>>, <<S("y"), S("bad")>>, <<S("type"), S("b")>> >>) }
                ELSE { Dct(Body(t)) : t \in {"a", "b", "a1", "r", "zz", ""} } \cup { Dct(<< <<S("type"), I(5)>> >>) })
               \cup (IF Site # "codec" /\ ~Faults THEN { None, L(<<>>), Dct(<< <<S("v"), I(0)>>, <<S("type"), L(<<>>)>> >>) } ELSE {})
          ELSE { Dct(<< <<S("v"), I(0)>>, <<S("x"), I(1)>> >>), Dct(<< <<S("v"), I(0)>>, <<S("x"), I(1)>>, <<S("z"), I(3)>> >>),
                 Dct(<< <<S("v"), I(0)>>, <<S("y"), I(2)>> >>), Dct(<< <<S("v"), I(0)>> >>), Dct(<<>>),
                 Dct(<< <<S("v"), I(0)>>, <<S("w"), S("bad")>> >>) }

Cx == DefaultCx
\* what any completed Deserialize must return now (abstract, history-free)
PairOf(r1, r2, j) == IF IsOk(r1) /\ IsOk(r2) THEN Ok(<<"obj", "HD", << <<"tuple", <<r1[2], r2[2]>> >> >> >>) ELSE Err(<<"Invalid", "f", j, "HD">>)
Outcome(j) ==
  CASE Site = "pair" -> PairOf(UnpackDiscr(defined, Root, DOpts, Cx, j[2][1]), UnpackDiscr(defined, Root2, DOpts, Cx, j[2][2]), j)
    [] Site = "config" -> UnpackDiscr(defined, Root, DOpts, Cx, j)
    [] Site = "codec"  -> UnpackDiscr(defined, Root, DOpts, Cx, j)
    [] Site \in FieldSites -> HolderOf(UnpackDiscr(defined, Root, DOpts, Cx, j), j)

\* ---- implementation-level registry: tag -> class name, filled lazily by walking the subclasses
RegLookup(reg, t) == IF \E p \in reg : p[1] = t THEN (CHOOSE p \in reg : p[1] = t)[2] ELSE "#miss"
WalkSubsOf(rn) == IF Walk = "recursive" THEN SubsDFS(defined, rn) ELSE SelectSeq(defined, LAMBDA C : ParentName(C) = rn)
WalkSubs == WalkSubsOf("R")
WalkEligible == WalkSubs \o (IF Supertypes THEN <<Root>> ELSE <<>>)
RefilledOf(el) == UNION { { <<t, el[i][2]>> : t \in TagsOf(el[i], DOpts) } : i \in DOMAIN el }
Refilled == RefilledOf(WalkEligible)
Refilled2 == RefilledOf(WalkSubsOf("R2"))
AllDefined == <<Root, Root2>> \o defined
\* one discriminated position resolved THROUGH a registry (hit, else refill from its own hierarchy and look again)
PosResult(reg, refill, j) ==
  IF j[1] # "dict" THEN Err(<<"ValueError">>)
  ELSE IF ~PairsHas(j[2], S("type")) THEN Err(<<"MissingDiscr", "type">>)
  ELSE LET t == PairsGet(j[2], S("type"))
           reg2 == IF RegLookup(reg, t) = "#miss" THEN reg \cup refill ELSE reg
           n == RegLookup(reg2, t) IN
       IF n = "#miss" THEN Err(<<"NoVariant">>) ELSE FromDictD(defined, ByName(AllDefined, n), Cx, j)
PosReg(reg, refill, j) ==
  IF j[1] = "dict" /\ PairsHas(j[2], S("type")) /\ RegLookup(reg, PairsGet(j[2], S("type"))) = "#miss" THEN reg \cup refill ELSE reg
\* result computed THROUGH the registry (hit, else refill and look again)
ImplResult(j) ==
  IF ~WithField THEN
      LET acc == SelectSeq(WalkEligible, LAMBDA C : IsOk(FromDict(C, Cx, j))) IN
      IF acc = <<>> THEN Err(<<"NoVariant">>) ELSE FromDict(acc[1], Cx, j)
  ELSE IF j[1] # "dict" THEN Err(<<"ValueError">>)
  ELSE IF ~PairsHas(j[2], S("type")) THEN Err(<<"MissingDiscr", "type">>)
  ELSE LET t == PairsGet(j[2], S("type"))
           reg2 == IF RegLookup(registry, t) = "#miss" THEN Refilled ELSE registry
           n == RegLookup(reg2, t) IN
       IF n = "#miss" THEN Err(<<"NoVariant">>) ELSE FromDictD(defined, ByName(<<Root>> \o defined, n), Cx, j)
\* the pair site: position 1 then position 2; in the deviant "shared" mode both positions read and fill ONE map
PairImpl(j) ==
  LET j1 == j[2][1] j2 == j[2][2]
      regA == registry
      r1 == PosResult(regA, Refilled, j1)
      regA1 == PosReg(regA, Refilled, j1)
      regB == IF RegMode = "shared" THEN regA1 ELSE registry2
      r2 == PosResult(regB, Refilled2, j2)
  IN PairOf(r1, r2, j)
ImplWrapped(j) == IF Site = "pair" THEN PairImpl(j) ELSE IF Site \notin FieldSites THEN ImplResult(j)
                  ELSE HolderOf(ImplResult(j), j)

\* without a field the statement does not fix the order among accepting subclasses
AcceptableNames(j) == IF WithField THEN <<>>
                      ELSE LET subs == SelectSeq(SubsDFS(defined, "R"), LAMBDA C : IsOk(FromDict(C, Cx, j))) IN
                           IF subs # <<>> THEN [i \in DOMAIN subs |-> subs[i][2]]
                           ELSE IF Supertypes /\ IsOk(FromDict(Root, Cx, j)) THEN <<"R">> ELSE <<>>

Init == /\ defined = <<>> /\ registry = {} /\ registry2 = {} /\ decoder = (Site # "codec") /\ hist = <<>> /\ last = <<"none">>

Define(c) == /\ ~IsDefined(defined, c[2])
             /\ ParentName(c) \in {"R", "#none"} \/ IsDefined(defined, ParentName(c))
             /\ defined' = Append(defined, c)
             /\ hist' = Append(hist, <<"Define", c>>)
             /\ UNCHANGED <<registry, registry2, decoder>> /\ last' = <<"define">>
CreateDecoder == /\ ~decoder /\ decoder' = TRUE /\ hist' = Append(hist, <<"CreateDecoder">>)
                 /\ UNCHANGED <<defined, registry, registry2>> /\ last' = <<"create">>
Deser(j) ==
  /\ decoder
  /\ IF Site = "pair"
     THEN LET regA1 == PosReg(registry, Refilled, j[2][1]) IN
          IF RegMode = "shared"
          THEN registry' = PosReg(regA1, Refilled2, j[2][2]) /\ registry2' = registry2
          ELSE registry' = regA1 /\ registry2' = PosReg(registry2, Refilled2, j[2][2])
     ELSE /\ registry2' = registry2
          /\ LET t == IF WithField /\ j[1] = "dict" /\ PairsHas(j[2], S("type")) THEN PairsGet(j[2], S("type")) ELSE <<"#none">> IN
             registry' = IF WithField /\ t # <<"#none">> /\ RegLookup(registry, t) = "#miss" THEN Refilled ELSE registry
  /\ hist' = Append(hist, <<"Deserialize", j, Outcome(j), AcceptableNames(j)>>)
  /\ last' = <<"deser", ImplWrapped(j), Outcome(j)>>
  /\ UNCHANGED <<defined, decoder>>

Next == /\ Len(hist) < MaxLen
        /\ \/ \E c \in Candidates : Define(c)
           \/ CreateDecoder
           \/ \E j \in Inputs : Deser(j)

\* ---- properties
\* the lazy registry implements the abstract choice under every interleaving (VariantChoice)
VariantChoice == last[1] = "deser" => last[2] = last[3]
\* the registry only ever maps a tag to an eligible defined class carrying that tag (RegistrySound)
RegistrySound == \A p \in registry \cup registry2 : IsDefined(AllDefined, p[2]) /\ p[1] \in TagsOf(ByName(AllDefined, p[2]), DOpts)
\* a class without its own tag is never chosen by tag
NoInheritedTag == (WithField /\ Tagger = "none" /\ Site # "pair" /\ last[1] = "deser" /\ IsOk(last[3])) =>
                    LET o == IF Site \in {"field", "fieldopt"} THEN last[3][2][3][1] ELSE IF Site = "fieldlist" THEN last[3][2][3][1][2][1] ELSE last[3][2] IN
                    (Site = "fieldopt" /\ IsNone(o)) \/ o[2] # "X"

EmitInv == (Len(hist) = MaxLen \/ ~ENABLED Next) => PrintT(ToJson(<<"beh", hist>>))
View == <<defined, registry, registry2, decoder, hist>>
=============================================================================
