CONSTANTS
  MaxLen = 3
INIT Init
NEXT Next
INVARIANT DefaultIffAbsent
INVARIANT EmitInv
INVARIANT SelfDefaults
