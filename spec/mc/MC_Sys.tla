------------------------------- MODULE MC_Sys -------------------------------
(***************************************************************************)
(* Model of sys/Mashumaro.tla for C13 / C14 / C15: a family                *)
(*   P (plain nested), Inner (opted in to dialects),                       *)
(*   C (nested + list of nested + plain nested + aliased optional field),  *)
(*   S < C (adds a field),                                                 *)
(* three dialects (strategy / options / both), eager or lazy compilation.  *)
(***************************************************************************)
EXTENDS Mashumaro

CONSTANTS LazyC, LazyInner, Mixin, KwFlags

Dt(y) == <<"date", y, 2, 28>>
PT == <<"dc", "P", << <<"d", <<"date">>, <<"req">>, <<>> >> >>, << <<"mixin", "plain">> >> >>
\* (the nested class holds a format-native member too: bytes stay native under msgpack at EVERY depth, also when the nested
\*  class's helper packer is compiled lazily)
InnerT == <<"dc", "Inner", << <<"d", <<"date">>, <<"req">>, <<>> >>, <<"o", <<"opt", <<"int">> >>, <<"val", None>>, <<>> >>,
                              <<"blob", <<"bytes">>, <<"val", <<"bytes", <<7, 8>> >> >>, <<>> >> >>,
            << <<"flags", {"dialect_flag"}>> >> \o (IF LazyInner THEN << <<"lazy", TRUE>> >> ELSE <<>>) >>
CFields == << <<"a", <<"date">>, <<"req">>, <<>> >>,
              <<"raw", <<"bytes">>, <<"req">>, <<>> >>,
              <<"inner", InnerT, <<"req">>, <<>> >>,
              <<"items", <<"list", InnerT>>, <<"req">>, <<>> >>,
              <<"p", PT, <<"req">>, <<>> >>,
              \* a union whose member decoding depends on the dialect (the generated union helper is compiled per dialect)
              <<"u", <<"union", << <<"date">>, <<"str">> >> >>, <<"req">>, <<>> >>,
              <<"o", <<"opt", <<"str">> >>, <<"val", None>>, << <<"alias", "oo">> >> >> >>
CFlags == IF KwFlags THEN {"dialect_flag", "omit_none_flag", "by_alias_flag"} ELSE {"dialect_flag"}
MixinOpt == IF Mixin = "dict" THEN <<>> ELSE << <<"mixin", Mixin>> >>
CT == <<"dc", "C", CFields, << <<"flags", CFlags>> >> \o MixinOpt \o (IF LazyC THEN << <<"lazy", TRUE>> >> ELSE <<>>) >>
ST == <<"dc", "S", CFields \o << <<"z", <<"date">>, <<"val", Dt(2020)>>, <<>> >> >>,
        << <<"bases", <<CT>> >>, <<"flags", CFlags>> >> \o MixinOpt \o (IF LazyC THEN << <<"lazy", TRUE>> >> ELSE <<>>) >>

MCClassOf(n) == CASE n = "C" -> CT [] n = "S" -> ST [] n = "Inner" -> InnerT
MCParentOf(n) == IF n = "S" THEN "C" ELSE "#none"
MCNames == {"C", "S"}
MCDialectOf(d) ==
  CASE d = "none" -> <<>>
    [] d = "D1" -> << <<"name", "D1">>, <<"strategy", << << <<"date">>, <<"mark", "d1", "both">> >> >> >> >>
    [] d = "D2" -> << <<"name", "D2">>, <<"omit_none", TRUE>>, <<"serialize_by_alias", TRUE>> >>
    [] d = "D3" -> << <<"name", "D3">>, <<"strategy", << << <<"date">>, <<"mark", "d3", "both">> >> >> >>, <<"omit_none", TRUE>> >>
MCDNames == IF KwFlags THEN {"none", "D1"} ELSE {"none", "D1", "D2", "D3"}
MCFmtsOf(n) == IF Mixin = "dict" THEN {"dict"} ELSE {"dict", Mixin}
MCKwNames == IF KwFlags THEN (IF Mixin = "orjson" THEN {"none", "omit_none", "by_alias", "newline"} ELSE {"none", "omit_none", "by_alias"}) ELSE {"none"}
Raw == <<"bytes", <<1, 2, 255>> >>
InnerV(y, o) == <<"obj", "Inner", <<Dt(y), o, <<"bytes", <<9, 255>> >> >> >>
MCValueOf(n) ==
  IF n = "C" THEN <<"obj", "C", <<Dt(2024), Raw, InnerV(2021, None), L(<<InnerV(2022, I(5))>>), <<"obj", "P", <<Dt(2023)>> >>, Dt(2025), None>> >>
  ELSE <<"obj", "S", <<Dt(2024), Raw, InnerV(2021, None), L(<<InnerV(2022, I(5))>>), <<"obj", "P", <<Dt(2023)>> >>, Dt(2025), S("s"), Dt(2019)>> >>
Ds(y) == S(IsoDate(y, 2, 28))
InnerJ(y) == Dct(<< <<S("d"), Ds(y)>>, <<S("blob"), S(EncodeBytes(<<9, 255>>))>> >>)
MCInputOf(n) ==
  Dct(<< <<S("a"), Ds(2024)>>, <<S("raw"), S(EncodeBytes(<<1, 2, 255>>))>>, <<S("inner"), InnerJ(2021)>>, <<S("items"), L(<<InnerJ(2022)>>)>>, <<S("p"), InnerJ(2023)>>, <<S("u"), Ds(2025)>> >>
      \o (IF n = "S" THEN << <<S("z"), Ds(2019)>>, <<S("oo"), S("t")>> >> ELSE <<>>))
=============================================================================
