------------------------------- MODULE MC_Sys -------------------------------
(***************************************************************************)
(* Model of sys/Mashumaro.tla for C13 / C14 / C15: a family                *)
(*   P (plain nested), Inner (opted in to dialects),                       *)
(*   C (nested + list of nested + plain nested + aliased optional field),  *)
(*   S < C (adds a field),                                                 *)
(* three dialects (strategy / options / both), eager or lazy compilation.  *)
(***************************************************************************)
EXTENDS Mashumaro

CONSTANTS LazyC, LazyInner

Dt(y) == <<"date", y, 2, 28>>
PT == <<"dc", "P", << <<"d", <<"date">>, <<"req">>, <<>> >> >>, << <<"mixin", "plain">> >> >>
InnerT == <<"dc", "Inner", << <<"d", <<"date">>, <<"req">>, <<>> >>, <<"o", <<"opt", <<"int">> >>, <<"val", None>>, <<>> >> >>,
            << <<"flags", {"dialect_flag"}>> >> \o (IF LazyInner THEN << <<"lazy", TRUE>> >> ELSE <<>>) >>
CFields == << <<"a", <<"date">>, <<"req">>, <<>> >>,
              <<"inner", InnerT, <<"req">>, <<>> >>,
              <<"items", <<"list", InnerT>>, <<"req">>, <<>> >>,
              <<"p", PT, <<"req">>, <<>> >>,
              <<"o", <<"opt", <<"str">> >>, <<"val", None>>, << <<"alias", "oo">> >> >> >>
CT == <<"dc", "C", CFields, << <<"flags", {"dialect_flag"}>> >> \o (IF LazyC THEN << <<"lazy", TRUE>> >> ELSE <<>>) >>
ST == <<"dc", "S", CFields \o << <<"z", <<"date">>, <<"val", Dt(2020)>>, <<>> >> >>,
        << <<"bases", <<CT>> >>, <<"flags", {"dialect_flag"}>> >> \o (IF LazyC THEN << <<"lazy", TRUE>> >> ELSE <<>>) >>

MCClassOf(n) == CASE n = "C" -> CT [] n = "S" -> ST [] n = "Inner" -> InnerT
MCParentOf(n) == IF n = "S" THEN "C" ELSE "#none"
MCNames == {"C", "S"}
MCDialectOf(d) ==
  CASE d = "none" -> <<>>
    [] d = "D1" -> << <<"name", "D1">>, <<"strategy", << << <<"date">>, <<"mark", "d1", "both">> >> >> >> >>
    [] d = "D2" -> << <<"name", "D2">>, <<"omit_none", TRUE>>, <<"serialize_by_alias", TRUE>> >>
    [] d = "D3" -> << <<"name", "D3">>, <<"strategy", << << <<"date">>, <<"mark", "d3", "both">> >> >> >>, <<"omit_none", TRUE>> >>
MCDNames == {"none", "D1", "D2", "D3"}
InnerV(y, o) == <<"obj", "Inner", <<Dt(y), o>> >>
MCValueOf(n) ==
  IF n = "C" THEN <<"obj", "C", <<Dt(2024), InnerV(2021, None), L(<<InnerV(2022, I(5))>>), <<"obj", "P", <<Dt(2023)>> >>, None>> >>
  ELSE <<"obj", "S", <<Dt(2024), InnerV(2021, None), L(<<InnerV(2022, I(5))>>), <<"obj", "P", <<Dt(2023)>> >>, S("s"), Dt(2019)>> >>
Ds(y) == S(IsoDate(y, 2, 28))
InnerJ(y) == Dct(<< <<S("d"), Ds(y)>> >>)
MCInputOf(n) ==
  Dct(<< <<S("a"), Ds(2024)>>, <<S("inner"), InnerJ(2021)>>, <<S("items"), L(<<InnerJ(2022)>>)>>, <<S("p"), InnerJ(2023)>> >>
      \o (IF n = "S" THEN << <<S("z"), Ds(2019)>>, <<S("oo"), S("t")>> >> ELSE <<>>))
=============================================================================
