INIT Init
NEXT Next
INVARIANT Documented
INVARIANT FirstDecides
INVARIANT EmitInv
