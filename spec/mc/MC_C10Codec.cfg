INIT Init
NEXT Next
INVARIANT EmitInv
