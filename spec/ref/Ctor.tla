-------------------------------- MODULE Ctor --------------------------------
(***************************************************************************)
(* "The documented constructor or parser of the annotated type" (C03) for  *)
(* foreign inputs: int(j), float(j), bool(j), str(j), date.fromisoformat,  *)
(* UUID(s), Decimal(s), ... and iter(j) for text.  This is a finite        *)
(* function table over the inputs of the run, produced by calling the      *)
(* Python STANDARD LIBRARY directly (harness/ctor.py -- never mashumaro)   *)
(* and handed to TLC as a JSON file named by the environment variable      *)
(* CTOR_FILE:  { kind: [[j, result], ...] }  result = ["ok", v] | ["err"]. *)
(* A pair that is not in the table makes the event UNMODELLED (counted,    *)
(* never judged).                                                          *)
(***************************************************************************)
EXTENDS Terms, Json, IOUtils

CtorRaw == IF "CTOR_FILE" \in DOMAIN IOEnv THEN JsonDeserialize(IOEnv.CTOR_FILE) ELSE [nokind |-> <<>>]
CtorMaps == [ k \in DOMAIN CtorRaw |->
               LET rows == CtorRaw[k] IN
               [ j \in { rows[i][1] : i \in DOMAIN rows } |-> rows[CHOOSE i \in DOMAIN rows : rows[i][1] = j][2] ] ]

Unknown == <<"unknown">>
Ctor(kind, j) == IF kind \in DOMAIN CtorMaps /\ j \in DOMAIN CtorMaps[kind]
                 THEN NormR(CtorMaps[kind][j]) ELSE Unknown
=============================================================================
