-------------------------------- MODULE Quote --------------------------------
(***************************************************************************)
(* C16: schema-supplied strings are data, never code.  Text is a sequence  *)
(* of one-character strings.  PyLexStr is Python's lexing of a             *)
(* single-quoted string literal (backslash escapes, termination by an      *)
(* unescaped quote, a raw newline is an error).  A generator that emits    *)
(* Repr(s) is safe for EVERY s (ReprSafe); one that splices s raw between  *)
(* quotes is safe for the strings without quote, backslash and newline     *)
(* (RawSafeWhenPlain) and is refuted by a quote, a trailing backslash, a   *)
(* newline, or an escape sequence (RawSpliceRefuted).                      *)
(***************************************************************************)
EXTENDS Naturals, Sequences, FiniteSets, TLC

LF == "\n"
BS == "\\"
SQ == "'"

\* escape for a single-quoted literal (what repr() does for these characters)
RECURSIVE Esc(_)
Esc(s) == IF s = <<>> THEN <<>>
          ELSE (CASE s[1] = BS -> <<BS, BS>> [] s[1] = SQ -> <<BS, SQ>> [] s[1] = LF -> <<BS, "n">> [] OTHER -> <<s[1]>>) \o Esc(Tail(s))
Repr(s) == <<SQ>> \o Esc(s) \o <<SQ>>
Raw(s)  == <<SQ>> \o s \o <<SQ>>

\* lex the BODY of a single-quoted literal (after the opening quote): <<"ok", decoded, rest>> | <<"error">>
RECURSIVE LexBody(_, _)
LexBody(src, acc) ==
  IF src = <<>> THEN <<"error">>                                  \* unterminated
  ELSE IF src[1] = SQ THEN <<"ok", acc, Tail(src)>>
  ELSE IF src[1] = LF THEN <<"error">>                            \* newline inside a single-quoted literal
  ELSE IF src[1] = BS THEN
         IF Len(src) < 2 THEN <<"error">>
         ELSE LET c == src[2] IN
              LexBody(SubSeq(src, 3, Len(src)),
                      acc \o (CASE c = "n" -> <<LF>> [] c = BS -> <<BS>> [] c = SQ -> <<SQ>> [] c = "\"" -> <<"\"">>
                                [] c = "a" -> <<"<BEL>">>        \* \a is the bell character
                                [] c = LF -> <<>>                \* backslash-newline: line continuation
                                [] OTHER -> <<BS, c>>))          \* unknown escapes keep the backslash
  ELSE LexBody(Tail(src), Append(acc, src[1]))
PyLexStr(src) == IF src = <<>> \/ src[1] # SQ THEN <<"error">> ELSE LexBody(Tail(src), <<>>)

Denotes(src, s) == PyLexStr(src) = <<"ok", s, <<>> >>
NeedsEscaping(s) == \E i \in DOMAIN s : s[i] \in {SQ, BS, LF}

RECURSIVE Join(_)
Join(s) == IF s = <<>> THEN "" ELSE s[1] \o Join(Tail(s))
=============================================================================
