-------------------------------- MODULE Hooks --------------------------------
(***************************************************************************)
(* C19: the hook trace of a (de)serialization is the pre/post-order        *)
(* traversal of the dataclass instances of the value (serialize) resp. of  *)
(* the result (deserialize).  An event is                                  *)
(*     << phase, class name, n, ctx >>                                     *)
(* phase in "pre_ser" "post_ser" "pre_deser" "post_deser"; n is the value  *)
(* of the instance's identifying first field AS THE HOOK SEES IT; ctx is   *)
(* TRUE iff the hook received the caller's context object.                 *)
(* Closed form (SerTrace / DeserTrace) + the statement's four invariants.  *)
(***************************************************************************)
EXTENDS Unpack

HasCtx(T) == "context_flag" \in Flags(T)
NOf(v) == IF v[3] # <<>> /\ v[3][1][1] = "int" THEN v[3][1][2] ELSE -1
NOfDict(d) == IF d[1] = "dict" /\ PairsHas(d[2], S("n")) /\ PairsGet(d[2], S("n"))[1] = "int" THEN PairsGet(d[2], S("n"))[2] ELSE -1

RECURSIVE Flat(_)
Flat(ss) == IF ss = <<>> THEN <<>> ELSE ss[1] \o Flat(Tail(ss))

RECURSIVE SerTrace(_, _, _)
\* ctx: TRUE while every class on the path from the entry point enabled ADD_SERIALIZATION_CONTEXT
SerTrace(T, v, ctx) ==
  CASE T[1] = "dc" ->
         LET c2 == ctx /\ HasCtx(T)
             v1 == IF "pre_ser" \in HooksOf(T) THEN BumpObj(v, 1) ELSE v
             fs == DcFields(T)
             inner == Flat([i \in DOMAIN fs |-> IF IsNone(v1[3][i]) THEN <<>> ELSE SerTrace(FType(fs[i]), v1[3][i], c2)])
         IN  (IF "pre_ser" \in HooksOf(T) THEN << <<"pre_ser", T[2], NOf(v), c2>> >> ELSE <<>>)
             \o inner
             \o (IF "post_ser" \in HooksOf(T) THEN << <<"post_ser", T[2], NOf(v1), c2>> >> ELSE <<>>)
    [] T[1] \in {"list", "deque", "vtuple", "seq", "mseq"} -> Flat([i \in DOMAIN v[2] |-> SerTrace(T[2], v[2][i], ctx)])
    [] T[1] = "tuple" -> Flat([i \in DOMAIN T[2] |-> SerTrace(T[2][i], v[2][i], ctx)])
    [] T[1] \in {"dict", "mapping", "odict"} -> Flat([i \in DOMAIN v[2] |-> SerTrace(T[3], v[2][i][2], ctx)])
    [] T[1] = "rec695" -> SerTrace(T[4], v, ctx)
    [] T[1] \in {"fwd", "tvarc", "tvarb"} -> SerTrace(T[3], v, ctx)
    [] T[1] = "opt" -> IF IsNone(v) THEN <<>> ELSE SerTrace(T[2], v, ctx)
    [] T[1] = "union" -> LET hits == { i \in DOMAIN T[2] : MatchesTag(T[2][i], v) } IN
                         IF hits = {} THEN <<>> ELSE SerTrace(T[2][CHOOSE i \in hits : \A k \in hits : i <= k], v, ctx)
    [] OTHER -> <<>>

RECURSIVE DeserTrace(_, _, _)
\* only for inputs the reference accepts; events of instances that END UP in the result
DeserTrace(T, cx, j) ==
  CASE T[1] = "dc" ->
         LET j1 == IF "pre_deser" \in HooksOf(T) THEN MapN(j, LAMBDA n : n + 2) ELSE j
             fs == DcFields(T)
             r  == FromDict(T, cx, j)
             inner == Flat([i \in DOMAIN fs |->
                        LET k == S(FKeyByAlias(T, fs[i])) IN
                        IF j1[1] = "dict" /\ PairsHas(j1[2], k) /\ ~IsNone(PairsGet(j1[2], k)) THEN DeserTrace(FType(fs[i]), cx, PairsGet(j1[2], k)) ELSE <<>>])
             \* the object handed to __post_deserialize__ (before its transformation)
             built == IF IsOk(r) /\ "post_deser" \in HooksOf(T) THEN NOf(r[2]) \div 3 ELSE -1
         IN  (IF "pre_deser" \in HooksOf(T) THEN << <<"pre_deser", T[2], NOfDict(j), FALSE>> >> ELSE <<>>)
             \o inner
             \o (IF "post_deser" \in HooksOf(T) THEN << <<"post_deser", T[2], built, FALSE>> >> ELSE <<>>)
    [] T[1] \in {"list", "deque", "vtuple", "seq", "mseq"} -> IF j[1] = "list" THEN Flat([i \in DOMAIN j[2] |-> DeserTrace(T[2], cx, j[2][i])]) ELSE <<>>
    [] T[1] = "tuple" -> IF j[1] = "list" THEN Flat([i \in DOMAIN T[2] |-> DeserTrace(T[2][i], cx, j[2][i])]) ELSE <<>>
    [] T[1] \in {"dict", "mapping", "odict"} -> IF j[1] = "dict" THEN Flat([i \in DOMAIN j[2] |-> DeserTrace(T[3], cx, j[2][i][2])]) ELSE <<>>
    [] T[1] = "rec695" -> DeserTrace(T[4], cx, j)
    [] T[1] \in {"fwd", "tvarc", "tvarb"} -> DeserTrace(T[3], cx, j)
    [] T[1] = "opt" -> IF IsNone(j) THEN <<>> ELSE DeserTrace(T[2], cx, j)
    [] T[1] = "union" -> LET ok == { i \in DOMAIN T[2] : IsOk(Unpack(T[2][i], cx, j)) } IN
                         IF ok = {} THEN <<>> ELSE DeserTrace(T[2][CHOOSE i \in ok : \A k \in ok : i <= k], cx, j)
    [] OTHER -> <<>>

\* ---- the statement's invariants on a trace tr for instances identified by (class, n)
Count(tr, ph, c, n) == Cardinality({ i \in DOMAIN tr : tr[i][1] = ph /\ tr[i][2] = c /\ tr[i][3] = n })
OncePerInstance(tr, ph) == \A i \in DOMAIN tr : tr[i][1] = ph => Count(tr, ph, tr[i][2], tr[i][3]) = 1
=============================================================================
