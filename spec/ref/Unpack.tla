------------------------------- MODULE Unpack -------------------------------
(***************************************************************************)
(* Unpack(T, cx, j): the documented deserialisation (REF_DECODE, C03) of   *)
(* an arbitrary JSON-like input j into the type T.  Total:                 *)
(*   <<"ok", v>> | <<"err", kind>> | <<"unknown">> (outside the oracle)    *)
(* Dataclass-level failures are the documented exceptions of C05:          *)
(*   <<"err", <<"ValueError">>>>  <<"err", <<"Missing", f, C>>>>           *)
(*   <<"err", <<"Invalid", f, rawvalue, C>>>>  <<"err", <<"Extra", K, C>>>> *)
(* Transcribed from README + Appendix A (A.2 A.3 A.4) of DESIGN.md.        *)
(***************************************************************************)
EXTENDS Pack, Ctor

IsUnknown(r) == r[1] = "unknown"
ScalarT(T) == T[1] \in {"int", "float", "bool", "str", "none"}

\* exact Python class of a JSON-like input
ExactIs(T, j) ==
  CASE T[1] = "int"   -> j[1] \in {"int", "bigint"}
    [] T[1] = "float" -> j[1] \in {"float", "bigfloat", "fspecial"}
    [] T[1] = "bool"  -> j[1] = "bool"
    [] T[1] = "str"   -> j[1] = "str"
    [] T[1] = "none"  -> j[1] = "none"

\* iter(j) the way the documented constructors iterate
IterOf(j) ==
  CASE j[1] = "list" -> Ok(j[2])
    [] j[1] = "dict" -> Ok([i \in DOMAIN j[2] |-> j[2][i][1]])
    [] j[1] = "str"  -> LET r == Ctor("iter", j) IN IF IsOk(r) THEN Ok(r[2][2]) ELSE r
    [] OTHER -> Err("notiterable")

\* j[i] / slices for tuples: lists index natively, text through its characters
IndexableOf(j) ==
  CASE j[1] = "list" -> Ok(j[2])
    [] j[1] = "str"  -> LET r == Ctor("iter", j) IN IF IsOk(r) THEN Ok(r[2][2]) ELSE r
    [] OTHER -> Err("notindexable")

ItemsOf(j) == IF j[1] = "dict" THEN Ok(j[2]) ELSE Err("noitems")

\* combine a sequence of results: first unknown -> unknown, first err -> that err, else ok(values)
Combine(rs) ==
  IF \E i \in DOMAIN rs : IsUnknown(rs[i]) THEN Unknown
  ELSE IF AllOk(rs) THEN Ok(Vals(rs)) ELSE FirstErr(rs)

RECURSIVE Unpack(_, _, _)
RECURSIVE UnpackB(_, _, _)
RECURSIVE FromDict(_, _, _)
RECURSIVE UnpackUnion(_, _, _)
RECURSIVE UnpackLiteral(_, _, _, _)

UnpackSeq(E, cx, js) == Combine([i \in DOMAIN js |-> Unpack(E, ElemCx(cx), js[i])])
UnpackPairs(K, V, cx, ps) ==
  LET ks == Combine([i \in DOMAIN ps |-> Unpack(K, ElemCx(cx), ps[i][1])])
      vs == Combine([i \in DOMAIN ps |-> Unpack(V, ElemCx(cx), ps[i][2])])
      \* evaluation order is key1, value1, key2, value2 ...; only ok/err matters here
  IN  IF IsUnknown(ks) \/ IsUnknown(vs) THEN Unknown
      ELSE IF ~IsOk(ks) THEN ks ELSE IF ~IsOk(vs) THEN vs
      ELSE Ok(DedupPairs([i \in DOMAIN ps |-> <<ks[2][i], vs[2][i]>>]))

Wrap(tag, r) == IF IsOk(r) THEN Ok(<<tag, r[2]>>) ELSE r
SeqLike(tag, E, cx, j) ==
  LET it == IterOf(j) IN
  IF ~IsOk(it) THEN it ELSE Wrap(tag, UnpackSeq(E, cx, it[2]))
SetLike(tag, E, cx, j) ==
  LET it == IterOf(j) IN
  IF ~IsOk(it) THEN it
  ELSE LET r == UnpackSeq(E, cx, it[2]) IN IF IsOk(r) THEN Ok(<<tag, Range(r[2])>>) ELSE r
MapLike(tag, K, V, cx, j) ==
  LET it == ItemsOf(j) IN
  IF ~IsOk(it) THEN it ELSE Wrap(tag, UnpackPairs(K, V, cx, it[2]))

UnpackUnion(Ms, cx, j) ==
  \* a scalar member that a customisation level converts is an ordinary (non pass-through) member: it is attempted at its position
  LET Plain(i) == ScalarT(Ms[i]) /\ Winner(Ms[i], cx, "deser") = <<"#builtin">>
      p1(i) == IF Plain(i) THEN (IF ExactIs(Ms[i], j) THEN Ok(j) ELSE Err("type")) ELSE Unpack(Ms[i], cx, j)
      first1 == { i \in DOMAIN Ms : IsOk(p1(i)) \/ IsUnknown(p1(i)) }
      \* coercions of the scalar members, in declaration order; a null member matches only null
      p2(i) == IF Plain(i) /\ Ms[i][1] # "none" THEN Unpack(Ms[i], cx, j) ELSE Err("type")
      first2 == { i \in DOMAIN Ms : IsOk(p2(i)) \/ IsUnknown(p2(i)) }
      min(Z) == CHOOSE i \in Z : \A k \in Z : i <= k
  IN  IF first1 # {} THEN p1(min(first1))
      ELSE IF first2 # {} THEN p2(min(first2))
      ELSE Err("union")

\* Literal: the first listed constant equal (Python ==) to the input; the LISTED constant is returned
UnpackLiteral(vals, cx, j, i) ==
  IF i > Len(vals) THEN Err("literal")
  ELSE LET c == vals[i]
           hit == CASE c[1] = "bytes" -> LET r == Ctor("bytes", j) IN
                                          IF IsUnknown(r) THEN "unknown" ELSE IF IsOk(r) /\ r[2] = c THEN "yes" ELSE "no"
                    [] c[1] = "lenum" -> IF PyEq(PairsGet(EnumMembers(c[2]), c[3]), j) THEN "yes" ELSE "no"
                    [] OTHER -> IF PyEq(c, j) THEN "yes" ELSE "no"
       IN  IF hit = "unknown" THEN Unknown
           ELSE IF hit = "yes" THEN Ok(IF c[1] = "lenum" THEN <<"enum", c[2][2], c[3]>> ELSE c)
           ELSE UnpackLiteral(vals, cx, j, i + 1)

\* ---- dataclass layer (A.4)
InitFields(T) == SelectSeq(DcFields(T), FInit)
AllowNotByAlias(T) == GetOpt(DcCfg(T), "allow_deserialization_not_by_alias", FALSE)
\* the one key a field is read from, given the input pairs
FieldKey(T, f, ps) ==
  IF FAlias(T, f) = "#none" THEN FName(f)
  ELSE IF AllowNotByAlias(T) /\ ~PairsHas(ps, S(FAlias(T, f))) THEN FName(f)
  ELSE FAlias(T, f)
AllowedKeys(T) ==
  { S(FKeyByAlias(T, f)) : f \in Range(InitFields(T)) }
    \cup (IF AllowNotByAlias(T) THEN { S(FName(f)) : f \in Range(InitFields(T)) } ELSE {})
    \cup (IF HasOpt(DcCfg(T), "discr_field") THEN { S(GetOpt(DcCfg(T), "discr_field", "")) } ELSE {})

DefaultOf(f) == FDflt(f)[2]

FromDict(T, cx, j0) ==
  LET j    == IF "pre_deser" \in HooksOf(T) THEN MapN(j0, LAMBDA n : n + 2) ELSE j0
      fs   == DcFields(T)
      ifs  == InitFields(T)
      name == DcName(T)
      ncx  == [NestCx(T, cx) EXCEPT !.levels = ClassLevels(T, cx), !.nt_dict = EffOpt(T, cx, "namedtuple_as_dict")]
      fcx(f) == [ncx EXCEPT !.fopt = FOpts(f)]
  IN
  IF ifs = <<>> THEN Ok(<<"obj", name, [i \in DOMAIN fs |-> DefaultOf(fs[i])]>>)
  ELSE IF j[1] # "dict" THEN Err(<<"ValueError">>)
  ELSE
    LET ps    == j[2]
        extra == { ps[i][1] : i \in DOMAIN ps } \ AllowedKeys(T)
        fres(f) ==
          IF ~FInit(f) THEN Ok(DefaultOf(f))
          ELSE LET k == S(FieldKey(T, f, ps)) IN
               IF ~PairsHas(ps, k)
               THEN IF FDflt(f)[1] = "req" THEN Err(<<"Missing", FName(f), name>>) ELSE Ok(DefaultOf(f))
               ELSE LET raw == PairsGet(ps, k) IN
                    IF IsNone(raw) /\ Nullable(f) THEN Ok(None)
                    ELSE LET r == Unpack(FType(f), fcx(f), raw) IN
                         IF IsOk(r) \/ IsUnknown(r) THEN r ELSE Err(<<"Invalid", FName(f), raw, name>>)
        rs == [i \in DOMAIN fs |-> fres(fs[i])]
    IN  IF GetOpt(DcCfg(T), "forbid_extra_keys", FALSE) /\ extra # {}
        THEN Err(<<"Extra", extra, name>>)
        ELSE LET c == Combine(rs) IN
             IF IsOk(c) THEN Ok(IF "post_deser" \in HooksOf(T) THEN MulObj(<<"obj", name, c[2]>>, 3) ELSE <<"obj", name, c[2]>>) ELSE c

\* int(int), str(str), bool(bool), float(float) are the identity; everything else is the stdlib table
Leafy(kind, j) == IF kind = j[1] /\ kind \in {"int", "str", "bool", "float"} THEN Ok(j) ELSE Ctor(kind, j)

\* named tuple from the converted leading items; missing trailing items take their defaults
Wrap2Nt(T, r) ==
  IF ~IsOk(r) THEN r
  ELSE LET fs == T[3] n == Len(r[2]) IN
       Ok(<<"nt", T[2], [i \in DOMAIN fs |-> IF i <= n THEN r[2][i] ELSE fs[i][3][2]]>>)

\* exactly one customisation level applies (C10); with none the built-in conversion UnpackB is used
Unpack(T, cx, j) ==
  LET w == Winner(T, cx, "deser") IN
  IF w = <<"#builtin">> THEN UnpackB(T, cx, j)
  ELSE IF w[1] = "pass_through" THEN Ok(j)
  ELSE IF w[1] = "shift" THEN (IF j[1] = "int" THEN Ok(I(j[2] - w[4])) ELSE Err("strategy"))     \* the strategy accepts exact ints only
  ELSE IF j = <<"none">> THEN Err("strategy")      \* the marker strategies of the harness refuse null (Optional / the None member handle it)
  ELSE Ok(S("D" \o w[2]))

UnpackB(T, cx, j) ==
  CASE T[1] \in {"int", "float", "bool", "str"} -> Leafy(T[1], j)
    [] T[1] = "none" -> Ok(None)
    [] T[1] = "any" -> Ok(j)
    [] T[1] \in {"datetime", "date", "time"} -> IF T[1] \in cx.native THEN Ok(j) ELSE Leafy(T[1], j)
    [] T[1] = "timedelta" -> Leafy("timedelta", j)
    [] T[1] = "tz" -> TzParse(j)
    [] T[1] = "text" -> IF T[2] \in cx.native THEN Ok(j) ELSE Leafy(T[2], j)
    [] T[1] \in {"bytes", "bytearray"} -> IF T[1] \in cx.native THEN Ok(j) ELSE Leafy(T[1], j)
    [] T[1] = "enum" -> EnumByValue(T, j)
    [] T[1] = "literal" -> UnpackLiteral(T[2], cx, j, 1)
    [] T[1] \in {"list", "seq", "mseq"} -> SeqLike("list", T[2], cx, j)
    [] T[1] = "deque" -> SeqLike("deque", T[2], cx, j)
    [] T[1] = "vtuple" -> SeqLike("tuple", T[2], cx, j)
    [] T[1] \in {"set", "aset"} -> SetLike("set", T[2], cx, j)
    [] T[1] = "frozenset" -> SetLike("frozenset", T[2], cx, j)
    [] T[1] = "tuple" ->      \* first n items positionally, surplus ignored, short input fails
         LET ix == IndexableOf(j) IN
         IF ~IsOk(ix) THEN ix
         ELSE IF Len(ix[2]) < Len(T[2]) THEN Err("short")
         ELSE Wrap("tuple", Combine([i \in DOMAIN T[2] |-> Unpack(T[2][i], ElemCx(cx), ix[2][i])]))
    [] T[1] \in {"utuple", "ustar"} ->
         LET ix == IndexableOf(j) p == Len(T[2]) q == Len(T[4]) IN
         IF ~IsOk(ix) THEN ix
         ELSE LET n == Len(ix[2]) IN
              IF n < p + q THEN Err("short")
              ELSE Wrap("tuple", Combine([i \in 1..n |->
                     IF i <= p THEN Unpack(T[2][i], ElemCx(cx), ix[2][i])
                     ELSE IF i > n - q THEN Unpack(T[4][i - (n - q)], ElemCx(cx), ix[2][i])
                     ELSE Unpack(T[3], ElemCx(cx), ix[2][i])]))
    [] T[1] \in {"dict", "mapping", "mmapping"} -> MapLike("dict", T[2], T[3], cx, j)
    [] T[1] = "odict" -> MapLike("OrderedDict", T[2], T[3], cx, j)
    [] T[1] = "ddict" -> MapLike("defaultdict", T[2], T[3], cx, j)
    [] T[1] = "mproxy" -> MapLike("mappingproxy", T[2], T[3], cx, j)
    [] T[1] = "counter" -> MapLike("Counter", T[2], <<"int">>, cx, j)
    [] T[1] = "chainmap" ->
         LET it == IterOf(j) IN
         IF ~IsOk(it) THEN it
         ELSE IF it[2] = <<>> THEN Ok(<<"ChainMap", << Dct(<<>>) >> >>)      \* ChainMap() holds one empty map
         ELSE Wrap("ChainMap", Combine([i \in DOMAIN it[2] |-> MapLike("dict", T[2], T[3], cx, it[2][i])]))
    [] T[1] = "ntuple" ->
         IF NtAsDict(cx, "deser")
         THEN IF j[1] # "dict" THEN Err("ntdict")
              ELSE LET fs == T[3] IN
                   IF \E i \in DOMAIN fs : ~PairsHas(j[2], S(fs[i][1])) THEN Err("ntmissing")
                   ELSE Wrap2Nt(T, Combine([i \in DOMAIN fs |-> Unpack(fs[i][2], ElemCx(cx), PairsGet(j[2], S(fs[i][1])))]))
         ELSE LET ix == IndexableOf(j) fs == T[3] IN
              IF ~IsOk(ix) THEN ix
              ELSE LET n == Min2(Len(ix[2]), Len(fs)) IN
                   IF n < Len(fs) /\ fs[n + 1][3][1] = "req" THEN Err("ntmissing")
                   ELSE Wrap2Nt(T, Combine([i \in 1..n |-> Unpack(fs[i][2], ElemCx(cx), ix[2][i])]))
    [] T[1] = "tdict" ->
         IF j[1] # "dict" THEN Err("tdict")
         ELSE LET fs == T[3]
                  missing == { i \in DOMAIN fs : fs[i][3] /\ ~PairsHas(j[2], S(fs[i][1])) }
                  req == SelectSeq([i \in DOMAIN fs |-> i], LAMBDA i : fs[i][3])
                  opt == SelectSeq([i \in DOMAIN fs |-> i], LAMBDA i : ~fs[i][3] /\ PairsHas(j[2], S(fs[i][1])))
                  order == req \o opt
              IN  IF missing # {} THEN Err("tdmissing")
                  ELSE LET c == Combine([k \in DOMAIN order |-> Unpack(fs[order[k]][2], ElemCx(cx), PairsGet(j[2], S(fs[order[k]][1])))]) IN
                       IF IsOk(c) THEN Ok(Dct([k \in DOMAIN order |-> <<S(fs[order[k]][1]), c[2][k]>>])) ELSE c
    [] T[1] = "opt" -> IF IsNone(j) THEN Ok(None) ELSE Unpack(T[2], cx, j)
    [] T[1] = "union" -> UnpackUnion(T[2], cx, j)
    [] T[1] \in {"newtype", "alias695"} -> Unpack(T[3], cx, j)
    [] T[1] = "stype" -> LET r == Unpack(T[3], cx, j) IN IF IsOk(r) THEN Ok(<<"sobj", T[2], r[2]>>) ELSE r
    [] T[1] \in {"final", "annotated"} -> Unpack(T[2], cx, j)
    [] T[1] = "rec695" -> Unpack(T[4], cx, j)
    [] T[1] \in {"fwd", "tvarc", "tvarb"} -> Unpack(T[3], cx, j)
    [] T[1] = "dc" -> FromDict(T, cx, j)

\* ---- Conforms(T, v): v is an instance of its annotation, the very class named (C03)
RECURSIVE Conforms(_, _)
Conforms(T, v) ==
  CASE T[1] = "int"   -> v[1] \in {"int", "bigint"}
    [] T[1] = "float" -> v[1] \in {"float", "bigfloat", "fspecial"}
    [] T[1] = "bool"  -> v[1] = "bool"
    [] T[1] = "str"   -> v[1] = "str"
    [] T[1] = "none"  -> v[1] = "none"
    [] T[1] = "any"   -> TRUE
    [] T[1] \in {"bytes", "bytearray", "datetime", "date", "time"} -> v[1] = T[1]
    [] T[1] = "timedelta" -> v[1] = "td"
    [] T[1] = "tz" -> v[1] = "tz"
    [] T[1] = "text" -> v[1] = "text" /\ v[2] = T[2]
    [] T[1] = "enum" -> v[1] = "enum" /\ v[2] = T[2] /\ PairsHas(EnumMembers(T), v[3])
    [] T[1] = "literal" -> \E i \in DOMAIN T[2] : IF T[2][i][1] = "lenum" THEN v = <<"enum", T[2][i][2][2], T[2][i][3]>> ELSE v = T[2][i]
    [] T[1] \in {"list", "seq", "mseq"} -> v[1] = "list" /\ \A i \in DOMAIN v[2] : Conforms(T[2], v[2][i])
    [] T[1] = "deque" -> v[1] = "deque" /\ \A i \in DOMAIN v[2] : Conforms(T[2], v[2][i])
    [] T[1] = "vtuple" -> v[1] = "tuple" /\ \A i \in DOMAIN v[2] : Conforms(T[2], v[2][i])
    [] T[1] \in {"set", "aset"} -> v[1] = "set" /\ \A e \in v[2] : Conforms(T[2], e)
    [] T[1] = "frozenset" -> v[1] = "frozenset" /\ \A e \in v[2] : Conforms(T[2], e)
    [] T[1] = "tuple" -> v[1] = "tuple" /\ Len(v[2]) = Len(T[2]) /\ \A i \in DOMAIN T[2] : Conforms(T[2][i], v[2][i])
    [] T[1] \in {"utuple", "ustar"} -> v[1] = "tuple" /\ Len(v[2]) >= Len(T[2]) + Len(T[4])
    [] T[1] \in {"dict", "mapping", "mmapping"} -> v[1] = "dict" /\ \A i \in DOMAIN v[2] : Conforms(T[2], v[2][i][1]) /\ Conforms(T[3], v[2][i][2])
    [] T[1] = "odict" -> v[1] = "OrderedDict" /\ \A i \in DOMAIN v[2] : Conforms(T[2], v[2][i][1]) /\ Conforms(T[3], v[2][i][2])
    [] T[1] = "ddict" -> v[1] = "defaultdict" /\ \A i \in DOMAIN v[2] : Conforms(T[2], v[2][i][1]) /\ Conforms(T[3], v[2][i][2])
    [] T[1] = "mproxy" -> v[1] = "mappingproxy" /\ \A i \in DOMAIN v[2] : Conforms(T[2], v[2][i][1]) /\ Conforms(T[3], v[2][i][2])
    [] T[1] = "counter" -> v[1] = "Counter" /\ \A i \in DOMAIN v[2] : Conforms(T[2], v[2][i][1]) /\ Conforms(<<"int">>, v[2][i][2])
    [] T[1] = "chainmap" -> v[1] = "ChainMap" /\ \A i \in DOMAIN v[2] : Conforms(<<"dict", T[2], T[3]>>, v[2][i])
    [] T[1] = "ntuple" -> v[1] = "nt" /\ v[2] = T[2] /\ Len(v[3]) = Len(T[3]) /\ \A i \in DOMAIN T[3] : Conforms(T[3][i][2], v[3][i])
    [] T[1] = "tdict" -> v[1] = "dict" /\ \A i \in DOMAIN T[3] :
                            IF PairsHas(v[2], S(T[3][i][1])) THEN Conforms(T[3][i][2], PairsGet(v[2], S(T[3][i][1]))) ELSE ~T[3][i][3]
    [] T[1] = "opt" -> IsNone(v) \/ Conforms(T[2], v)
    [] T[1] = "union" -> \E i \in DOMAIN T[2] : Conforms(T[2][i], v)
    [] T[1] \in {"newtype", "alias695"} -> Conforms(T[3], v)
    [] T[1] = "stype" -> v[1] = "sobj" /\ v[2] = T[2] /\ Conforms(T[3], v[3])
    [] T[1] \in {"final", "annotated"} -> Conforms(T[2], v)
    [] T[1] = "rec695" -> Conforms(T[4], v)
    [] T[1] \in {"fwd", "tvarc", "tvarb"} -> Conforms(T[3], v)
    [] T[1] = "dc" -> v[1] = "obj" /\ v[2] = T[2] /\ Len(v[3]) = Len(T[3]) /\
                      \A i \in DOMAIN T[3] : (Nullable(T[3][i]) /\ IsNone(v[3][i])) \/ Conforms(T[3][i][2], v[3][i])
=============================================================================
