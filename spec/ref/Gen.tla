-------------------------------- MODULE Gen ---------------------------------
(***************************************************************************)
(* The bounded type grammar and the sample values TLC enumerates           *)
(* (DESIGN.md 3.5).  Pure operators.                                       *)
(*   Leaves       every supported leaf type                                *)
(*   RepLeaves    representatives used below depth 1                       *)
(*   Ctor1(E,K)   every collection constructor over element set E and     *)
(*                key set K                                                *)
(*   Smp(T)       ordered sample values (a sequence) conforming to T       *)
(***************************************************************************)
EXTENDS Unpack

Naive == <<"naive">>
Off(m) == <<"off", m>>

\* ---- a few fixed class-like definitions
Color  == <<"enum", "Color", "Enum", << <<"RED", S("r")>>, <<"GREEN", S("g")>> >> >>
Prio   == <<"enum", "Prio", "IntEnum", << <<"LOW", I(1)>>, <<"HIGH", I(2)>> >> >>
Mode   == <<"enum", "Mode", "StrEnum", << <<"ON", S("on")>>, <<"OFF", S("off")>> >> >>

TextKinds == {"uuid", "decimal", "fraction", "ipv4addr", "ipv6addr", "ipv4net", "ipv6net", "ipv4if",
              "ipv6if", "pureposixpath", "purewindowspath", "posixpath", "pattern"}

Leaves ==
  { <<"int">>, <<"float">>, <<"bool">>, <<"str">>, <<"none">>, <<"any">>, <<"bytes">>, <<"bytearray">>,
    <<"datetime">>, <<"date">>, <<"time">>, <<"timedelta">>, <<"tz">>, Color, Prio, Mode }
  \cup { <<"text", k>> : k \in TextKinds }

\* hashable leaves usable as mapping keys / set elements
KeyLeaves == Leaves \ { <<"none">>, <<"any">>, <<"bytearray">>, <<"text", "pattern">> }

RepLeaves == { <<"int">>, <<"str">>, <<"datetime">>, <<"bytes">>, <<"tz">>, Color, <<"timedelta">> }
RepKeys   == { <<"str">>, <<"int">>, <<"date">> }

LeafSmp(T) ==
  CASE T[1] = "int"   -> << I(0), I(-7), I(42) >>
    [] T[1] = "float" -> << <<"float", 0, 0>>, <<"float", 15, -1>>, <<"float", -225, -2>> >>
    [] T[1] = "bool"  -> << B(TRUE), B(FALSE) >>
    [] T[1] = "str"   -> << S(""), S("a"), S("h\"'\\ x\ny") >>
    [] T[1] = "none"  -> << None >>
    [] T[1] = "any"   -> << I(5), S("z"), L(<<I(1), S("q")>>), None >>
    [] T[1] = "bytes" -> << <<"bytes", <<>> >>, <<"bytes", <<0>> >>, <<"bytes", <<255, 1>> >>,
                            <<"bytes", [i \in 1..57 |-> i]>>, <<"bytes", [i \in 1..58 |-> 255 - i]>> >>
    [] T[1] = "bytearray" -> << <<"bytearray", <<>> >>, <<"bytearray", <<7, 8, 9>> >> >>
    [] T[1] = "datetime" -> << <<"datetime", 2024, 1, 2, 3, 4, 5, 0, Naive>>,
                               <<"datetime", 1999, 12, 31, 23, 59, 59, 999999, Off(-30)>>,
                               <<"datetime", 2030, 6, 15, 0, 0, 0, 1, Off(345)>>,
                               <<"datetime", 1, 1, 1, 0, 0, 0, 0, Off(0)>> >>
    [] T[1] = "date" -> << <<"date", 2024, 2, 29>>, <<"date", 1, 1, 1>>, <<"date", 9999, 12, 31>> >>
    [] T[1] = "time" -> << <<"time", 0, 0, 0, 0, Naive>>, <<"time", 23, 59, 59, 999999, Naive>>,
                           <<"time", 12, 30, 0, 500000, Off(-30)>>, <<"time", 1, 2, 3, 0, Off(1439)>> >>
    [] T[1] = "timedelta" -> << <<"td", 0, 0, 0>>, <<"td", 0, 1, 500000>>, <<"td", -1, 86399, 999999>>,
                                <<"td", 1, 0, 0>>, <<"td", -3, 7, 0>> >>
    [] T[1] = "tz" -> << <<"tz", 0>>, <<"tz", 30>>, <<"tz", -30>>, <<"tz", 345>>, <<"tz", -1439>>, <<"tz", 1439>>, <<"tz", -61>> >>
    [] T[1] = "enum" -> [i \in DOMAIN T[4] |-> <<"enum", T[2], T[4][i][1]>>]
    [] T[1] = "text" ->
        CASE T[2] = "uuid" -> << <<"text", "uuid", "12345678-1234-5678-1234-567812345678">>,
                                 <<"text", "uuid", "00000000-0000-0000-0000-000000000000">> >>
          [] T[2] = "decimal" -> << <<"text", "decimal", "1.50">>, <<"text", "decimal", "-0">>, <<"text", "decimal", "1E+3">> >>
          [] T[2] = "fraction" -> << <<"text", "fraction", "1/3">>, <<"text", "fraction", "-7">> >>
          [] T[2] = "ipv4addr" -> << <<"text", "ipv4addr", "127.0.0.1">>, <<"text", "ipv4addr", "10.0.0.255">> >>
          [] T[2] = "ipv6addr" -> << <<"text", "ipv6addr", "::1">>, <<"text", "ipv6addr", "2001:db8::ff00:42:8329">> >>
          [] T[2] = "ipv4net" -> << <<"text", "ipv4net", "192.168.0.0/24">> >>
          [] T[2] = "ipv6net" -> << <<"text", "ipv6net", "2001:db8::/32">> >>
          [] T[2] = "ipv4if" -> << <<"text", "ipv4if", "192.168.0.7/24">> >>
          [] T[2] = "ipv6if" -> << <<"text", "ipv6if", "2001:db8::1/64">> >>
          [] T[2] = "pureposixpath" -> << <<"text", "pureposixpath", "/tmp/x y">>, <<"text", "pureposixpath", ".">> >>
          [] T[2] = "purewindowspath" -> << <<"text", "purewindowspath", "C:\\dir\\f.txt">> >>
          [] T[2] = "posixpath" -> << <<"text", "posixpath", "rel/p">> >>
          [] T[2] = "pattern" -> << <<"text", "pattern", "a+b*">>, <<"text", "pattern", "">> >>

\* ---- collection constructors
Ctor1(E, K) ==
       { <<c, e>> : c \in {"list", "deque", "seq", "mseq", "vtuple", "opt"}, e \in E }
  \cup { <<c, e>> : c \in {"set", "frozenset", "aset"}, e \in E \cap KeyLeaves }
  \cup { <<c, k, e>> : c \in {"dict", "odict", "ddict", "mapping", "mmapping", "mproxy", "chainmap"}, k \in K, e \in E }
  \cup { <<"counter", k>> : k \in K }
  \cup { <<"tuple", <<e, <<"str">> >> >> : e \in E }
  \cup { <<"utuple", <<e>>, <<"int">>, <<<<"str">> >> >> : e \in E }
  \cup { <<"ntuple", "NT", << <<"a", e, <<"req">> >>, <<"b", <<"int">>, <<"val", I(9)>> >> >> >> : e \in E }
  \cup { <<"tdict", "TD", << <<"k", e, TRUE>>, <<"o", <<"int">>, FALSE>> >> >> : e \in E }
  \cup { <<"newtype", "NTy", e>> : e \in E }
  \cup { <<"alias695", "TA", e>> : e \in E }
  \* (a wrapper around a type that has null among its values shares the wire form null with Optional's None: the statement's exclusion)
  \cup { <<"stype", "SW", e>> : e \in E \ { <<"any">>, <<"none">> } }

Holder(T) == <<"dc", "H", << <<"f", T, <<"req">>, <<>> >>, <<"g", <<"opt", T>>, <<"val", None>>, <<>> >> >>, <<>> >>
\* a nullable field whose default is a FALSY non-None value of the type (explicit null must still win)
FalsyHolder(T, d) == <<"dc", "FH", << <<"f", T, <<"req">>, <<>> >>, <<"h", <<"opt", T>>, <<"val", d>>, <<>> >> >>, <<>> >>
PlainHolder(T) == <<"dc", "PH", << <<"f", T, <<"req">>, <<>> >> >>, << <<"mixin", "plain">> >> >>

FirstOf(s) == s[1]
LastOf(s) == s[Len(s)]

RECURSIVE Smp(_)
RECURSIVE MapSmp(_, _, _)
Smp(T) ==
  CASE T[1] \in {"list", "seq", "mseq"} -> LET e == Smp(T[2]) IN
           << L(<<>>), L(<<e[1]>>), L(e) >>
    [] T[1] = "deque" -> LET e == Smp(T[2]) IN << <<"deque", <<>> >>, <<"deque", e>> >>
    [] T[1] = "vtuple" -> LET e == Smp(T[2]) IN << <<"tuple", <<>> >>, <<"tuple", e>> >>
    [] T[1] \in {"set", "aset"} -> LET e == Smp(T[2]) IN << <<"set", {}>>, <<"set", Range(e)>> >>
    [] T[1] = "frozenset" -> LET e == Smp(T[2]) IN << <<"frozenset", {}>>, <<"frozenset", Range(e)>> >>
    [] T[1] = "tuple" -> << <<"tuple", [i \in DOMAIN T[2] |-> FirstOf(Smp(T[2][i]))]>>,
                            <<"tuple", [i \in DOMAIN T[2] |-> LastOf(Smp(T[2][i]))]>> >>
    [] T[1] \in {"utuple", "ustar"} -> LET p == [i \in DOMAIN T[2] |-> LastOf(Smp(T[2][i]))]
                              q == [i \in DOMAIN T[4] |-> LastOf(Smp(T[4][i]))]
                              m == Smp(T[3]) IN
                          << <<"tuple", p \o q>>, <<"tuple", p \o m \o q>> >>
    [] T[1] \in {"dict", "mapping", "mmapping"} -> MapSmp("dict", T[2], T[3])
    [] T[1] = "odict" -> MapSmp("OrderedDict", T[2], T[3])
    [] T[1] = "ddict" -> MapSmp("defaultdict", T[2], T[3])
    [] T[1] = "mproxy" -> MapSmp("mappingproxy", T[2], T[3])
    [] T[1] = "counter" -> LET k == Smp(T[2]) IN << <<"Counter", <<>> >>, <<"Counter", << <<k[1], I(3)>> >> >> >>
    [] T[1] = "chainmap" -> LET m == MapSmp("dict", T[2], T[3]) IN
                            << <<"ChainMap", << m[1] >> >>, <<"ChainMap", << m[2], m[1] >> >> >>
    [] T[1] = "ntuple" -> << <<"nt", T[2], [i \in DOMAIN T[3] |-> FirstOf(Smp(T[3][i][2]))]>>,
                             <<"nt", T[2], [i \in DOMAIN T[3] |-> LastOf(Smp(T[3][i][2]))]>> >>
    [] T[1] = "tdict" -> LET req == SelectSeq(T[3], LAMBDA f : f[3]) IN
                         << Dct([i \in DOMAIN req |-> <<S(req[i][1]), FirstOf(Smp(req[i][2]))>>]),
                            Dct([i \in DOMAIN T[3] |-> <<S(T[3][i][1]), LastOf(Smp(T[3][i][2]))>>]) >>
    [] T[1] = "opt" -> << None >> \o Smp(T[2])
    [] T[1] = "union" -> LET ss == [i \in DOMAIN T[2] |-> Smp(T[2][i])] IN
                         [i \in DOMAIN T[2] |-> FirstOf(ss[i])] \o [i \in DOMAIN T[2] |-> LastOf(ss[i])]
    [] T[1] \in {"newtype", "alias695"} -> Smp(T[3])
    [] T[1] = "stype" -> LET e == Smp(T[3]) IN [i \in DOMAIN e |-> <<"sobj", T[2], e[i]>>]
    [] T[1] \in {"final", "annotated"} -> Smp(T[2])
    [] T[1] = "rec695" -> Smp(T[4])
    [] T[1] \in {"fwd", "tvarc", "tvarb"} -> Smp(T[3])
    [] T[1] = "literal" -> [i \in DOMAIN T[2] |-> IF T[2][i][1] = "lenum" THEN <<"enum", T[2][i][2][2], T[2][i][3]>> ELSE T[2][i]]
    [] T[1] = "dc" -> LET fs == T[3] IN
                      << <<"obj", T[2], [i \in DOMAIN fs |-> IF FInit(fs[i]) THEN FirstOf(Smp(fs[i][2])) ELSE DefaultOf(fs[i])]>>,
                         <<"obj", T[2], [i \in DOMAIN fs |-> IF FInit(fs[i]) THEN LastOf(Smp(fs[i][2])) ELSE DefaultOf(fs[i])]>> >>
    [] OTHER -> LeafSmp(T)

\* ---- three-level inheritance with re-declaration in the MIDDLE class (shared by several MC modules).
\* Chain3(C) means exactly what C means: the leaf class K(M3(G3)) declares nothing itself, M3 re-declares every field as C
\* lists it, and the grandparent G3 declared the same names with STALE options (another default, another alias, no
\* serialize / strategy options).  The nearest declaration is the one in effect.
MutTags == {"list", "dict", "set", "deque", "OrderedDict", "defaultdict", "Counter", "ChainMap", "bytearray", "obj"}
AsDflt(x) == IF x[1] \in MutTags THEN <<"fac", x>> ELSE <<"val", x>>
StaleDflt(f) ==
  IF f[3][1] = "req" THEN <<"req">>
  ELSE IF f[2][1] \in {"opt", "any"} /\ f[3][2] # <<"none">> THEN <<"val", <<"none">> >>
  ELSE LET sm == Smp(f[2])
           alt == IF LastOf(sm) # f[3][2] THEN LastOf(sm) ELSE FirstOf(sm) IN
       AsDflt(alt)
StaleField(f) == <<f[1], f[2], StaleDflt(f),
                   SelectSeq(f[4], LAMBDA o : o[1] \in {"init", "kw_only"}) \o << <<"alias", "g_" \o f[1]>> >> >>
Chain3(C) ==
  LET mix == SelectSeq(C[4], LAMBDA o : o[1] = "mixin")
      G == <<"dc", "G3", [i \in DOMAIN C[3] |-> StaleField(C[3][i])], mix>>
      M == <<"dc", "M3", C[3], mix \o << <<"bases", <<G>> >>, <<"redeclared", [i \in DOMAIN C[3] |-> C[3][i][1]]>> >> >>
  IN  <<"dc", C[2], C[3], C[4] \o << <<"bases", <<M>> >> >> >>

\* a subclass (adding defaulted fields) of a format-mixin class whose fields refer to typing.Self: the nested documents under
\* next / kids are documents of the SUBCLASS -- its own fields take the explicit value, or their default iff absent
RECURSIVE SubT(_, _)
SubT(fmt, k) ==
  LET U == IF k = 0 THEN <<"none">> ELSE SubT(fmt, k - 1)
      pf == << <<"a", <<"int">>, <<"val", I(1)>>, <<>> >>,
               <<"next", <<"opt", <<"fwd", "#self", U>> >>, <<"val", None>>, <<>> >>,
               <<"kids", <<"list", <<"fwd", "#self", U>> >>, <<"fac", L(<<>>)>>, <<>> >> >>
      PU == IF k = 0 THEN <<"none">> ELSE <<"none">>
      Par == <<"dc", "SP", [i \in DOMAIN pf |-> IF i = 1 THEN pf[i] ELSE <<pf[i][1], IF i = 2 THEN <<"opt", <<"fwd", "#self", <<"none">> >> >> ELSE <<"list", <<"fwd", "#self", <<"none">> >> >>, pf[i][3], pf[i][4]>>],
               << <<"mixin", fmt>> >> >>
  IN <<"dc", "K", pf \o << <<"x", <<"int">>, <<"val", I(42)>>, <<>> >>, <<"o", <<"opt", <<"int">> >>, <<"val", I(5)>>, <<>> >> >>,
       << <<"mixin", fmt>>, <<"bases", <<Par>> >> >> >>
SelfFams == { SubT(f, 2) : f \in {"dict", "orjson", "msgpack"} }
SubDoc(x) == Dct(<< <<S("a"), I(3)>> >> \o x)
SelfInputs == { Dct(<< <<S("next"), SubDoc(<< <<S("x"), I(7)>>, <<S("o"), None>> >>)>> >>),
                Dct(<< <<S("next"), SubDoc(<<>>)>>, <<S("x"), I(9)>> >>),
                Dct(<< <<S("kids"), L(<< SubDoc(<< <<S("x"), I(7)>> >>), SubDoc(<< <<S("o"), I(6)>>, <<S("next"), SubDoc(<< <<S("x"), I(8)>> >>)>> >>) >>)>> >>),
                Dct(<<>>) }

MapSmp(tag, K, V) ==
  LET k == Smp(K) v == Smp(V) n == IF Len(k) < Len(v) THEN Len(k) ELSE Len(v) IN
  << <<tag, <<>> >>, <<tag, << <<k[1], v[1]>> >> >>, <<tag, [i \in 1..n |-> <<k[i], v[Len(v) + 1 - i]>>]>> >>
=============================================================================
