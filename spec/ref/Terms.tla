------------------------------- MODULE Terms -------------------------------
(***************************************************************************)
(* Term language shared by every reference module and by the Python        *)
(* bridge (harness/terms.py).  Everything is a tagged tuple <<tag, ...>>;  *)
(* the JSON wire form between TLC and Python is the same thing as arrays.  *)
(* This module is variable-free (pure operators only).                     *)
(*                                                                         *)
(* Type terms   <<"int">> <<"list", E>> <<"dict", K, V>> <<"dc", name,     *)
(*              fields, cfg>> ...   (see DESIGN.md 3.2)                    *)
(* Value terms  carry the CONCRETE class as tag: <<"int", 5>>,             *)
(*              <<"list", <<..>>>>, <<"deque", <<..>>>>, <<"set", {..}>>,  *)
(*              <<"dict", <<<<k, v>>, ..>>>>, <<"obj", C, <<fieldvals>>>>  *)
(***************************************************************************)
EXTENDS Naturals, Integers, Sequences, FiniteSets, TLC

Range(s) == { s[i] : i \in DOMAIN s }

Tag(t) == t[1]

\* option lists are sequences of tagged tuples <<key, value>>; first one wins
HasOpt(opts, k) == \E i \in DOMAIN opts : opts[i][1] = k
GetOpt(opts, k, dflt) ==
  IF HasOpt(opts, k)
  THEN opts[CHOOSE i \in DOMAIN opts : opts[i][1] = k /\ \A j \in DOMAIN opts : opts[j][1] = k => i <= j][2]
  ELSE dflt

Ok(v)  == <<"ok", v>>
Err(k) == <<"err", k>>
IsOk(r) == r[1] = "ok"

\* ---------------------------------------------------------------------------
\* value constructors
I(n) == <<"int", n>>
S(s) == <<"str", s>>
B(b) == <<"bool", b>>
None == <<"none">>
L(seq) == <<"list", seq>>
Dct(pairs) == <<"dict", pairs>>

ScalarTags == {"int", "bigint", "float", "bigfloat", "fspecial", "bool", "str", "none"}
IsNone(v) == v[1] = "none"

\* sequence helpers
RECURSIVE MapSeq(_, _)
MapSeq(Op(_), s) == [i \in DOMAIN s |-> Op(s[i])]

RECURSIVE FirstErr(_)
\* first non-ok element of a sequence of results, or <<>> if none
FirstErr(rs) ==
  IF rs = <<>> THEN <<>>
  ELSE IF ~IsOk(Head(rs)) THEN Head(rs) ELSE FirstErr(Tail(rs))

AllOk(rs) == \A i \in DOMAIN rs : IsOk(rs[i])
Vals(rs)  == [i \in DOMAIN rs |-> rs[i][2]]

\* de-duplicate a sequence of pairs by key, LAST value wins but FIRST position kept
\* (what a Python dict comprehension does)
RECURSIVE DedupPairs(_)
DedupPairs(ps) ==
  IF ps = <<>> THEN <<>>
  ELSE LET n    == Len(ps)
           last == ps[n]
           init == DedupPairs(SubSeq(ps, 1, n - 1))
       IN  IF \E i \in DOMAIN init : init[i][1] = last[1]
           THEN [i \in DOMAIN init |-> IF init[i][1] = last[1] THEN <<init[i][1], last[2]>> ELSE init[i]]
           ELSE Append(init, last)

PairsGet(ps, k)  == ps[CHOOSE i \in DOMAIN ps : ps[i][1] = k][2]
PairsHas(ps, k)  == \E i \in DOMAIN ps : ps[i][1] = k

\* sets arrive from JSON as arrays: normalise "set"/"frozenset" nodes to TLA+ sets
RECURSIVE NormV(_)
NormV(v) ==
  CASE v[1] \in {"set", "frozenset"} ->
         <<v[1], IF DOMAIN v[2] = {} THEN {} ELSE { NormV(v[2][i]) : i \in DOMAIN v[2] }>>
    [] v[1] \in {"list", "tuple", "deque"} -> <<v[1], [i \in DOMAIN v[2] |-> NormV(v[2][i])]>>
    [] v[1] \in {"dict", "OrderedDict", "defaultdict", "Counter", "mappingproxy"} ->
         <<v[1], [i \in DOMAIN v[2] |-> <<NormV(v[2][i][1]), NormV(v[2][i][2])>>]>>
    [] v[1] = "ChainMap" -> <<v[1], [i \in DOMAIN v[2] |-> NormV(v[2][i])]>>
    [] v[1] = "obj" -> <<"obj", v[2], [i \in DOMAIN v[3] |-> NormV(v[3][i])]>>
    [] v[1] = "sobj" -> <<"sobj", v[2], NormV(v[3])>>
    [] v[1] = "nt"  -> <<"nt", v[2], [i \in DOMAIN v[3] |-> NormV(v[3][i])]>>
    [] OTHER -> v

NormR(r) == IF r[1] = "ok" THEN <<"ok", NormV(r[2])>> ELSE r

\* Python equality of values (C01 "a value equal to the original"): plain mappings compare
\* regardless of insertion order (OrderedDict does not).  EqForm maps a normalised value to a
\* form on which TLA+ equality is Python equality.
RECURSIVE EqForm(_)
EqForm(v) ==
  CASE v[1] \in {"set", "frozenset"} -> <<v[1], { EqForm(e) : e \in v[2] }>>
    [] v[1] \in {"list", "tuple", "deque"} -> <<v[1], [i \in DOMAIN v[2] |-> EqForm(v[2][i])]>>
    [] v[1] \in {"dict", "defaultdict", "Counter", "mappingproxy"} ->
         <<v[1], { <<EqForm(v[2][i][1]), EqForm(v[2][i][2])>> : i \in DOMAIN v[2] }>>
    [] v[1] = "OrderedDict" -> <<v[1], [i \in DOMAIN v[2] |-> <<EqForm(v[2][i][1]), EqForm(v[2][i][2])>>]>>
    [] v[1] = "ChainMap" -> <<v[1], [i \in DOMAIN v[2] |-> EqForm(v[2][i])]>>
    [] v[1] = "obj" -> <<"obj", v[2], [i \in DOMAIN v[3] |-> EqForm(v[3][i])]>>
    [] v[1] = "sobj" -> <<"sobj", v[2], EqForm(v[3])>>
    [] v[1] = "nt"  -> <<"nt", v[2], [i \in DOMAIN v[3] |-> EqForm(v[3][i])]>>
    [] OTHER -> v

\* type terms arriving from JSON embed default VALUES (dataclass / named tuple fields): normalise them
NormD(d) == IF d[1] \in {"val", "fac"} THEN <<d[1], NormV(d[2])>> ELSE d
RECURSIVE NormT(_)
\* strategy tables << <<key type term, strategy>> ... >> and dialect option lists (sets arrive from JSON as arrays)
NormTable(tab) == [k \in DOMAIN tab |-> <<NormT(tab[k][1]), tab[k][2]>>]
NormDialect(d) == [i \in DOMAIN d |-> IF d[i][1] = "no_copy" THEN <<"no_copy", Range(d[i][2])>>
                                       ELSE IF d[i][1] = "strategy" THEN <<"strategy", NormTable(d[i][2])>> ELSE d[i]]
NormCfgOpt(o) == CASE o[1] = "bases" -> <<"bases", [k \in DOMAIN o[2] |-> NormT(o[2][k])]>>
                   [] o[1] \in {"flags", "hooks"} -> <<o[1], Range(o[2])>>
                   [] o[1] = "dialect" -> <<"dialect", NormDialect(o[2])>>
                   [] o[1] = "cfg_strategy" -> <<"cfg_strategy", NormTable(o[2])>>
                   [] OTHER -> o
NormT(T) ==
  CASE T[1] = "dc" -> <<"dc", T[2],
                        [i \in DOMAIN T[3] |-> <<T[3][i][1], NormT(T[3][i][2]), NormD(T[3][i][3]), T[3][i][4]>>],
                        [i \in DOMAIN T[4] |-> NormCfgOpt(T[4][i])]>>
    [] T[1] = "ntuple" -> <<"ntuple", T[2], [i \in DOMAIN T[3] |-> <<T[3][i][1], NormT(T[3][i][2]), NormD(T[3][i][3])>>]>>
    [] T[1] = "tdict"  -> <<"tdict", T[2], [i \in DOMAIN T[3] |-> <<T[3][i][1], NormT(T[3][i][2]), T[3][i][3]>>]>>
    [] T[1] = "annotated" /\ Len(T) >= 3 -> <<"annotated", NormT(T[2]), T[3]>>       \* Annotated[X, marker]: the marker makes it a type KEY of its own
    [] T[1] \in {"list", "deque", "seq", "mseq", "vtuple", "opt", "set", "frozenset", "aset", "counter", "final", "annotated"} ->
         <<T[1], NormT(T[2])>>
    [] T[1] \in {"dict", "odict", "ddict", "mapping", "mmapping", "mproxy", "chainmap"} -> <<T[1], NormT(T[2]), NormT(T[3])>>
    [] T[1] \in {"tuple", "union"} -> <<T[1], [i \in DOMAIN T[2] |-> NormT(T[2][i])]>>
    [] T[1] \in {"utuple", "ustar"} -> <<T[1], [i \in DOMAIN T[2] |-> NormT(T[2][i])], NormT(T[3]), [i \in DOMAIN T[4] |-> NormT(T[4][i])]>>
    [] T[1] \in {"newtype", "stype", "alias695"} -> <<T[1], T[2], NormT(T[3])>>
    [] T[1] \in {"fwd", "tvarc", "tvarb"} -> <<T[1], T[2], NormT(T[3])>>
    [] T[1] = "rec695" -> <<"rec695", T[2], T[3], NormT(T[4])>>      \* a RECURSIVE PEP 695 alias: T[3] its body with <<"recref", name>> (bridge), T[4] its meaning unfolded
    [] OTHER -> T
=============================================================================
