-------------------------------- MODULE Pack --------------------------------
(***************************************************************************)
(* Pack(T, cx, v): the documented basic form (REF_ENCODE of property C02)  *)
(* of a value v conforming to the type term T under the call context cx.   *)
(*                                                                         *)
(* cx is a record:                                                         *)
(*   native    set of leaf tags a format dialect leaves unconverted         *)
(*   omit_none / by_alias    call-level keyword arguments: "unset" | "yes" | "no"  *)
(*   dlct      options carried by the dialect in effect (option list)      *)
(*   nt_dict   namedtuple_as_dict in effect                                *)
(*                                                                         *)
(* Transcribed from README ("Supported data types", "Config options",      *)
(* "Dialects") and Appendix A of DESIGN.md; not from the code generator.   *)
(***************************************************************************)
EXTENDS Leaf

DefaultCx == [native |-> {}, omit_none |-> "unset", by_alias |-> "unset", dlct |-> <<>>,
              fmtd |-> <<>>, nt_dict |-> FALSE,
              levels |-> <<>>,      \* strategy tables in precedence order (set per dataclass / per codec)
              fopt |-> <<>>,        \* field-level options of the field being converted (C10)
              nocopy |-> {}]        \* no_copy_collections in effect: subset of {"list", "dict", "set"} (C18)

\* ---- customisation precedence (C10, DESIGN.md App. A.6) ---------------------------------
\* strategy term:  <<"typed", id, mode>> (as mark, serialize annotated -> int)   <<"mark", id, mode>> (mode "both" | "ser" | "deser")   <<"pass_through">>   <<"shift", id, "both", k>> (ints only, lossless)
\* a strategy table is a sequence of << keyTerm, strategy >>; keys: a NewType term, an exact type
\* term, or <<"origin", tag>> for the generic origin of a parametrised type
Supplies(st, dir) == st[1] = "pass_through" \/ st[3] = "both" \/ st[3] = dir
\* (an Annotated alias <<"annotated", X, marker>> is the most specific key of a position annotated with it, then X's own keys)
RECURSIVE TypeKeys(_)
TypeKeys(T) ==
  IF T[1] = "annotated" /\ Len(T) >= 3 THEN << T >> \o TypeKeys(T[2])
  ELSE IF T[1] = "newtype" THEN << T >>
  ELSE IF T[1] \in {"list", "set", "frozenset", "deque", "dict", "odict", "ddict", "counter", "chainmap", "vtuple", "tuple",
                    "seq", "mseq", "aset", "mapping", "mmapping", "mproxy"}
       THEN << T, <<"origin", T[1]>> >>
       ELSE << T >>
TableGet(tab, k) == IF PairsHas(tab, k) THEN PairsGet(tab, k) ELSE <<"#nostrat">>
\* the winning registration for type T in direction dir, or <<"#builtin">>
Winner(T, cx, dir) ==
  LET fo == cx.fopt
      fcall == GetOpt(fo, IF dir = "ser" THEN "fser" ELSE "fdeser", <<"#nostrat">>)      \* field serialize=/deserialize= callable
      fstrat == GetOpt(fo, "strategy", <<"#nostrat">>)
      keys == TypeKeys(T)
      \* candidates in precedence order: (key specificity, level)
      cands == [n \in 1..(Len(keys) * Len(cx.levels)) |->
                  LET ki == ((n - 1) \div Len(cx.levels)) + 1  li == ((n - 1) % Len(cx.levels)) + 1 IN
                  TableGet(cx.levels[li], keys[ki])]
      good == { n \in DOMAIN cands : cands[n] # <<"#nostrat">> /\ Supplies(cands[n], dir) }
  IN  IF fcall # <<"#nostrat">> THEN fcall
      ELSE IF fstrat # <<"#nostrat">> /\ Supplies(fstrat, dir) THEN fstrat
      ELSE IF good = {} THEN <<"#builtin">>
      ELSE cands[CHOOSE n \in good : \A m \in good : n <= m]
\* named tuples: the field's serialize / deserialize engine ("as_dict" | "as_list") beats namedtuple_as_dict in effect for the class
NtAsDict(cx, dir) == LET e == GetOpt(cx.fopt, dir, "") IN IF e = "as_dict" THEN TRUE ELSE IF e = "as_list" THEN FALSE ELSE cx.nt_dict
\* descending into collection elements drops the field-level options (they concern the field's own type)
ElemCx(cx) == [cx EXCEPT !.fopt = <<>>]

\* ---- dataclass definitions: <<"dc", name, fields, cfg>>
\*      field = <<fname, T, dflt, fopts>>   dflt = <<"req">> | <<"val", v>> | <<"fac", v>>
DcName(T) == T[2]
DcFields(T) == T[3]
DcCfg(T) == T[4]
FName(f) == f[1]
FType(f) == f[2]
FDflt(f) == f[3]
FOpts(f) == f[4]
FInit(f) == GetOpt(FOpts(f), "init", TRUE)

\* alias of a field: metadata alias > Annotated Alias > Config.aliases[f] > none  (C09)
CfgAlias(cfg, fname) == LET al == GetOpt(cfg, "aliases", <<>>) IN
                        IF PairsHas(al, fname) THEN PairsGet(al, fname) ELSE "#none"
FAlias(T, f) ==
  IF HasOpt(FOpts(f), "alias") THEN GetOpt(FOpts(f), "alias", "#none")
  ELSE IF HasOpt(FOpts(f), "aalias") THEN GetOpt(FOpts(f), "aalias", "#none")
  ELSE CfgAlias(DcCfg(T), FName(f))
FKeyByAlias(T, f) == IF FAlias(T, f) = "#none" THEN FName(f) ELSE FAlias(T, f)

\* ---- effective serialisation options for class T under cx:
\*      keyword argument > call dialect > Config.dialect > Config > format dialect > False
\* (keyword arguments / call dialects only exist where the class enabled the flag)
Flags(T) == GetOpt(DcCfg(T), "flags", {})
EffOpt(T, cx, opt) ==
  LET kw   == IF opt = "omit_none" /\ "omit_none_flag" \in Flags(T) THEN cx.omit_none
              ELSE IF opt = "by_alias" /\ "by_alias_flag" \in Flags(T) THEN cx.by_alias
              ELSE "unset"
      cdl  == IF "dialect_flag" \in Flags(T) THEN cx.dlct ELSE <<>>
      cfgd == GetOpt(DcCfg(T), "dialect", <<>>)
      cfg  == DcCfg(T)
      o    == IF opt = "by_alias" THEN "serialize_by_alias" ELSE opt
  IN  IF kw # "unset" THEN kw = "yes"
      ELSE IF HasOpt(cdl, o) THEN GetOpt(cdl, o, FALSE)
      ELSE IF HasOpt(cfgd, o) THEN GetOpt(cfgd, o, FALSE)
      ELSE IF HasOpt(cfg, o) THEN GetOpt(cfg, o, FALSE)
      ELSE IF HasOpt(cx.fmtd, o) THEN GetOpt(cx.fmtd, o, FALSE)
      ELSE FALSE

\* context handed to a nested dataclass: where the OUTER class enabled a keyword flag, the value
\* in effect for the outer call (the keyword, or the outer class's own default for it) is handed
\* down as that keyword, and it reaches a nested class only if that class enabled the same flag
\* too (EffOpt looks at the nested class's flags) -- an outer option never leaks into a class
\* that did not opt in (NoLeak, C08).  The same holds for the call dialect.
YN(b) == IF b THEN "yes" ELSE "no"
NestCx(T, cx) ==
  [cx EXCEPT !.omit_none = IF "omit_none_flag" \in Flags(T) THEN YN(EffOpt(T, cx, "omit_none")) ELSE "unset",
             !.by_alias  = IF "by_alias_flag"  \in Flags(T) THEN YN(EffOpt(T, cx, "by_alias"))  ELSE "unset",
             !.dlct      = IF "dialect_flag"   \in Flags(T) THEN cx.dlct      ELSE <<>>]

Nullable(f) == \/ FType(f)[1] \in {"opt", "any", "none"}
               \/ (FDflt(f)[1] = "val" /\ IsNone(FDflt(f)[2]))

\* strategy tables visible to the fields of class T: call dialect > Config.dialect > Config.serialization_strategy > format dialect
ClassLevels(T, cx) ==
  << GetOpt(IF "dialect_flag" \in Flags(T) THEN cx.dlct ELSE <<>>, "strategy", <<>>),
     GetOpt(GetOpt(DcCfg(T), "dialect", <<>>), "strategy", <<>>),
     GetOpt(DcCfg(T), "cfg_strategy", <<>>),
     GetOpt(cx.fmtd, "strategy", <<>>) >>

\* no_copy_collections in effect for class T: call dialect > Config.dialect > format dialect
ClassNoCopy(T, cx) ==
  LET cdl == IF "dialect_flag" \in Flags(T) THEN cx.dlct ELSE <<>>
      cfgd == GetOpt(DcCfg(T), "dialect", <<>>) IN
  IF HasOpt(cdl, "no_copy") THEN GetOpt(cdl, "no_copy", {})
  ELSE IF HasOpt(cfgd, "no_copy") THEN GetOpt(cfgd, "no_copy", {})
  ELSE GetOpt(cx.fmtd, "no_copy", {})

\* a position whose serialisation is the identity: scalars / Any, or a listed collection of such
\* (no customisation level may apply to it)
RECURSIVE ConvFree(_, _)
ConvFree(T, cx) ==
  /\ Winner(T, cx, "ser") = <<"#builtin">>
  /\ CASE T[1] \in {"int", "float", "bool", "str", "none", "any"} -> TRUE
       [] T[1] = "list" -> "list" \in cx.nocopy /\ ConvFree(T[2], ElemCx(cx))
       [] T[1] = "dict" -> "dict" \in cx.nocopy /\ ConvFree(T[2], ElemCx(cx)) /\ ConvFree(T[3], ElemCx(cx))
       [] T[1] = "set"  -> "set" \in cx.nocopy /\ ConvFree(T[2], ElemCx(cx))
       [] T[1] = "union" -> \A i \in DOMAIN T[2] : ConvFree(T[2][i], cx)        \* every member is passed through: so is the position
       [] OTHER -> FALSE

RECURSIVE Pack(_, _, _)
RECURSIVE PackB(_, _, _)
RECURSIVE PackSeq(_, _, _)
RECURSIVE PackMembers(_, _, _, _)
RECURSIVE PackDC(_, _, _)
RECURSIVE MatchesTag(_, _)

PackSeq(E, cx, s) == [i \in DOMAIN s |-> Pack(E, ElemCx(cx), s[i])]
PackPairs(K, V, cx, ps) == [i \in DOMAIN ps |-> <<Pack(K, ElemCx(cx), ps[i][1]), Pack(V, ElemCx(cx), ps[i][2])>>]

\* does the value v belong to union member M (exact class for scalars, conformance shape otherwise)
\* serialisation picks "the member matching the value"
MatchesTag(M, v) ==
  CASE M[1] = "int"   -> v[1] \in {"int", "bigint"}
    [] M[1] = "float" -> v[1] \in {"float", "bigfloat", "fspecial"}
    [] M[1] = "bool"  -> v[1] = "bool"
    [] M[1] = "str"   -> v[1] = "str"
    [] M[1] = "none"  -> v[1] = "none"
    [] M[1] = "any"   -> TRUE
    [] M[1] = "bytes" -> v[1] = "bytes"
    [] M[1] = "bytearray" -> v[1] = "bytearray"
    [] M[1] \in {"datetime", "date", "time"} -> v[1] = M[1]
    [] M[1] = "timedelta" -> v[1] = "td"
    [] M[1] = "tz" -> v[1] = "tz"
    [] M[1] = "text" -> v[1] = "text" /\ v[2] = M[2]
    [] M[1] = "enum" -> v[1] = "enum" /\ v[2] = M[2]
    [] M[1] \in {"list", "seq", "mseq"} -> v[1] = "list"
    [] M[1] = "deque" -> v[1] = "deque"
    [] M[1] \in {"set", "aset"} -> v[1] = "set"
    [] M[1] = "frozenset" -> v[1] = "frozenset"
    [] M[1] \in {"vtuple", "tuple", "utuple", "ustar"} -> v[1] = "tuple"
    [] M[1] \in {"dict", "mapping", "mmapping", "tdict"} -> v[1] = "dict"
    [] M[1] = "odict" -> v[1] = "OrderedDict"
    [] M[1] = "ddict" -> v[1] = "defaultdict"
    [] M[1] = "counter" -> v[1] = "Counter"
    [] M[1] = "chainmap" -> v[1] = "ChainMap"
    [] M[1] = "mproxy" -> v[1] = "mappingproxy"
    [] M[1] = "ntuple" -> v[1] = "nt" /\ v[2] = M[2]
    [] M[1] = "dc" -> v[1] = "obj" /\ v[2] = M[2]
    [] M[1] = "stype" -> v[1] = "sobj" /\ v[2] = M[2]
    [] M[1] = "opt" -> v[1] = "none" \/ MatchesTag(M[2], v)
    [] M[1] = "union" -> \E i \in DOMAIN M[2] : MatchesTag(M[2][i], v)
    [] M[1] = "literal" -> \E i \in DOMAIN M[2] :
                             IF M[2][i][1] = "lenum" THEN v = <<"enum", M[2][i][2][2], M[2][i][3]>> ELSE M[2][i] = v
    [] M[1] \in {"newtype", "alias695"} -> MatchesTag(M[3], v)
    [] M[1] \in {"final", "annotated"} -> MatchesTag(M[2], v)
    [] M[1] \in {"fwd", "tvarc", "tvarb"} -> MatchesTag(M[3], v)
    [] M[1] = "rec695" -> MatchesTag(M[4], v)
    [] OTHER -> FALSE

PackMembers(Ms, cx, v, i) ==
  IF i > Len(Ms) THEN <<"#nomember">>
  ELSE IF MatchesTag(Ms[i], v) THEN Pack(Ms[i], cx, v) ELSE PackMembers(Ms, cx, v, i + 1)

\* literal: the packed form of the listed value (enum member => its value, bytes => base64)
\* listed constants are value terms; an enum member is listed as <<"lenum", EnumType, mname>>
PackLiteral(T, cx, v) ==
  CASE v[1] = "bytes" -> S(EncodeBytes(v[2]))
    [] v[1] = "enum" ->
         LET i == CHOOSE k \in DOMAIN T[2] : T[2][k][1] = "lenum" /\ T[2][k][2][2] = v[2] /\ T[2][k][3] = v[3]
         IN  PairsGet(EnumMembers(T[2][i][2]), v[3])
    [] OTHER -> v

\* ---- hooks (C19): the reference hooks used by the harness are fixed, observable transformations of
\* the first field "n":  __pre_serialize__ returns a copy with n + 1, __post_serialize__ multiplies the
\* emitted n by 10, __pre_deserialize__ adds 2 to the input's n, __post_deserialize__ multiplies n by 3
\* -- so order, exactly-once and "the return value is what is used" are all visible in the result.
HooksOf(T) == GetOpt(DcCfg(T), "hooks", {})
BumpObj(v, k) == <<"obj", v[2], [i \in DOMAIN v[3] |-> IF i = 1 /\ v[3][1][1] = "int" THEN I(v[3][1][2] + k) ELSE v[3][i]]>>
MulObj(v, k)  == <<"obj", v[2], [i \in DOMAIN v[3] |-> IF i = 1 /\ v[3][1][1] = "int" THEN I(v[3][1][2] * k) ELSE v[3][i]]>>
MapN(d, Op(_)) == IF d[1] # "dict" THEN d
                  ELSE Dct([i \in DOMAIN d[2] |-> IF d[2][i][1] = S("n") /\ d[2][i][2][1] = "int" THEN <<S("n"), I(Op(d[2][i][2][2]))>> ELSE d[2][i]])

PackDC(T, cx, v0) ==
  LET v    == IF "pre_ser" \in HooksOf(T) THEN BumpObj(v0, 1) ELSE v0
      fs   == DcFields(T)
      vals == v[3]
      on   == EffOpt(T, cx, "omit_none")
      od   == EffOpt(T, cx, "omit_default")
      ba   == EffOpt(T, cx, "by_alias")
      ncx0 == NestCx(T, cx)
      ncx  == [ncx0 EXCEPT !.levels = ClassLevels(T, cx), !.nocopy = ClassNoCopy(T, cx), !.nt_dict = EffOpt(T, cx, "namedtuple_as_dict")]
      fcx(i) == [ncx EXCEPT !.fopt = FOpts(fs[i])]
      keep(i) == /\ GetOpt(FOpts(fs[i]), "ser", "") # "omit"
                 /\ ~(on /\ IsNone(vals[i]))
                 /\ ~(od /\ FDflt(fs[i])[1] \in {"val", "fac"} /\ vals[i] = FDflt(fs[i])[2])
      key(i) == IF ba THEN FKeyByAlias(T, fs[i]) ELSE FName(fs[i])
      idx  == IF GetOpt(DcCfg(T), "sort_keys", FALSE) THEN GetOpt(DcCfg(T), "sorted_idx", <<>>)
              ELSE [i \in DOMAIN fs |-> i]
      kept == SelectSeq(idx, keep)
      plain == Dct([j \in DOMAIN kept |-> <<S(key(kept[j])),
                                     IF IsNone(vals[kept[j]]) /\ Nullable(fs[kept[j]]) THEN None
                                     ELSE Pack(FType(fs[kept[j]]), fcx(kept[j]), vals[kept[j]])>>])
  IN  IF "post_ser" \in HooksOf(T) THEN MapN(plain, LAMBDA n : n * 10) ELSE plain

\* exactly one customisation level applies; with none the built-in rendering PackB is used
Pack(T, cx, v) ==
  LET w == Winner(T, cx, "ser") IN
  IF w = <<"#builtin">> THEN PackB(T, cx, v)
  ELSE IF w[1] = "pass_through" THEN v
  ELSE IF w[1] = "typed" THEN I(7)           \* <<"typed", id, mode>>: a strategy whose serialize is ANNOTATED "-> int" and returns 7 (what a JSON Schema must then describe)
  ELSE IF w[1] = "shift" THEN (IF v[1] = "int" THEN I(v[2] + w[4]) ELSE v)      \* a LOSSLESS strategy on ints: serialize adds k, deserialize subtracts it
  ELSE S("S" \o w[2])

PackB(T, cx, v) ==
  CASE T[1] \in {"int", "float", "bool", "str", "none", "any"} -> v
    [] T[1] \in {"datetime", "date", "time"} -> IF T[1] \in cx.native THEN v ELSE S(IsoOf(v))
    [] T[1] = "timedelta" -> TotalSeconds(v)
    [] T[1] = "tz" -> S(TzName(v[2]))
    [] T[1] = "text" -> IF T[2] \in cx.native THEN v ELSE S(v[3])          \* canonical text leaves <<"text", kind, s>>
    [] T[1] \in {"bytes", "bytearray"} -> IF T[1] \in cx.native THEN v ELSE S(EncodeBytes(v[2]))
    [] T[1] = "enum" -> EnumValueOf(T, v)
    [] T[1] = "flag" -> I(v[3])
    [] T[1] = "literal" -> PackLiteral(T, cx, v)
    [] T[1] \in {"list", "deque", "seq", "mseq", "vtuple"} -> L(PackSeq(T[2], cx, v[2]))
    [] T[1] \in {"set", "frozenset", "aset"} ->
         IF T[1] = "set" /\ ConvFree(T, cx) THEN v          \* passed by reference under no_copy_collections: stays a set
         ELSE <<"bag", { Pack(T[2], ElemCx(cx), e) : e \in v[2] }>>
    [] T[1] = "tuple" -> L([i \in DOMAIN T[2] |-> Pack(T[2][i], ElemCx(cx), v[2][i])])
    [] T[1] \in {"utuple", "ustar"} ->       \* Tuple[pre..., *Tuple[mid, ...], post...]
         LET n == Len(v[2]) p == Len(T[2]) q == Len(T[4]) IN
         L([i \in 1..n |-> IF i <= p THEN Pack(T[2][i], ElemCx(cx), v[2][i])
                           ELSE IF i > n - q THEN Pack(T[4][i - (n - q)], ElemCx(cx), v[2][i])
                           ELSE Pack(T[3], ElemCx(cx), v[2][i])])
    [] T[1] \in {"dict", "odict", "ddict", "mapping", "mmapping", "mproxy"} -> Dct(PackPairs(T[2], T[3], cx, v[2]))
    [] T[1] = "counter" -> Dct(PackPairs(T[2], <<"int">>, cx, v[2]))
    [] T[1] = "chainmap" -> L([i \in DOMAIN v[2] |-> Dct(PackPairs(T[2], T[3], cx, v[2][i][2]))])
    [] T[1] = "ntuple" ->      \* <<"ntuple", name, fields>>, value <<"nt", name, items>>
         IF NtAsDict(cx, "ser") THEN Dct([i \in DOMAIN T[3] |-> <<S(T[3][i][1]), Pack(T[3][i][2], ElemCx(cx), v[3][i])>>])
         ELSE L([i \in DOMAIN T[3] |-> Pack(T[3][i][2], ElemCx(cx), v[3][i])])
    [] T[1] = "tdict" ->       \* <<"tdict", name, fields>>  field = <<key, T, required>>; value = plain dict
         LET present == SelectSeq([i \in DOMAIN T[3] |-> i], LAMBDA i : T[3][i][3] /\ PairsHas(v[2], S(T[3][i][1])))
             optional == SelectSeq([i \in DOMAIN T[3] |-> i], LAMBDA i : ~T[3][i][3] /\ PairsHas(v[2], S(T[3][i][1])))
             order == present \o optional
         IN  Dct([j \in DOMAIN order |-> <<S(T[3][order[j]][1]),
                                            Pack(T[3][order[j]][2], ElemCx(cx), PairsGet(v[2], S(T[3][order[j]][1])))>>])
    [] T[1] = "opt" -> IF IsNone(v) THEN None ELSE Pack(T[2], cx, v)
    [] T[1] = "union" -> PackMembers(T[2], cx, v, 1)
    [] T[1] = "newtype" -> Pack(T[3], cx, v)
    [] T[1] = "alias695" -> Pack(T[3], cx, v)          \* <<"alias695", name, T>>: a PEP 695 alias (type Name = T) means T
    \* <<"stype", name, A>>: a user class implementing SerializableType with use_annotations=True whose _serialize() -> A hands out
    \* the wrapped value and whose _deserialize(value: A) wraps it again; a value is <<"sobj", name, x>> with x a value of A.
    \* The library converts what _serialize returns / what _deserialize receives by the annotation A
    [] T[1] = "stype" -> IF v[1] = "sobj" THEN Pack(T[3], cx, v[3]) ELSE <<"#illtyped">>
    [] T[1] \in {"final", "annotated"} -> Pack(T[2], cx, v)
    [] T[1] = "rec695" -> Pack(T[4], cx, v)
    [] T[1] \in {"fwd", "tvarc", "tvarb"} -> Pack(T[3], cx, v)          \* forward reference <<"fwd", name, T>>: the class is defined later, same meaning
    [] T[1] = "dc" -> PackDC(T, cx, v)

\* ---- IsBasic: only str int float bool None list dict (C02) -- "bag" is a list in unspecified order
RECURSIVE IsBasic(_, _)
IsBasic(w, native) ==
  CASE w[1] \in ScalarTags -> TRUE
    [] w[1] = "list" -> \A i \in DOMAIN w[2] : IsBasic(w[2][i], native)
    [] w[1] = "bag"  -> \A e \in w[2] : IsBasic(e, native)
    [] w[1] = "dict" -> \A i \in DOMAIN w[2] : IsBasic(w[2][i][1], native) /\ IsBasic(w[2][i][2], native)
    [] w[1] \in native -> TRUE
    [] w[1] = "text" -> w[2] \in native
    [] OTHER -> FALSE
=============================================================================
