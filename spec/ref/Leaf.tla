-------------------------------- MODULE Leaf --------------------------------
(***************************************************************************)
(* Documented renderings of the structured leaf types (README "Supported   *)
(* data types" table, property C02).  Written from the documentation, not  *)
(* from the generator.  Text is built with string concatenation (TLC       *)
(* supports \o on strings); parsing goes through the Ctor table (stdlib)   *)
(* except for the library's own timezone language, inverted by search.     *)
(***************************************************************************)
EXTENDS Terms

Digits == <<"0","1","2","3","4","5","6","7","8","9">>
D(n) == Digits[n + 1]
Pad2(n) == D((n \div 10) % 10) \o D(n % 10)
Pad4(n) == D((n \div 1000) % 10) \o D((n \div 100) % 10) \o D((n \div 10) % 10) \o D(n % 10)
Pad6(n) == D((n \div 100000) % 10) \o D((n \div 10000) % 10) \o Pad4(n % 10000)
Abs(n) == IF n < 0 THEN -n ELSE n

\* ---- timezone: "UTC" or "UTC+hh:mm" / "UTC-hh:mm" (whole minutes, |m| < 1440)
TzName(m) == IF m = 0 THEN "UTC"
             ELSE "UTC" \o (IF m < 0 THEN "-" ELSE "+") \o Pad2(Abs(m) \div 60) \o ":" \o Pad2(Abs(m) % 60)

TzOffsets == (-1439)..1439
TzTable == [m \in TzOffsets |-> TzName(m)]
\* the library's own parser, specified as the inverse of TzName on the documented
\* language; the sign applies to hours AND minutes
TzParse(j) ==
  IF j[1] # "str" THEN Err("tz")
  ELSE IF \E m \in TzOffsets : TzTable[m] = j[2]
       THEN Ok(<<"tz", CHOOSE m \in TzOffsets : TzTable[m] = j[2]>>)
       ELSE Err("tz")

\* ---- ISO 8601 as produced by isoformat()
\* utc offset suffix: tz is <<"naive">> or <<"off", minutes>>
OffSuffix(tz) == IF tz[1] = "naive" THEN ""
                 ELSE (IF tz[2] < 0 THEN "-" ELSE "+") \o Pad2(Abs(tz[2]) \div 60) \o ":" \o Pad2(Abs(tz[2]) % 60)
IsoDate(y, m, d) == Pad4(y) \o "-" \o Pad2(m) \o "-" \o Pad2(d)
IsoClock(h, mi, s, us) == Pad2(h) \o ":" \o Pad2(mi) \o ":" \o Pad2(s) \o (IF us = 0 THEN "" ELSE "." \o Pad6(us))
\* <<"date", y, m, d>>   <<"time", h, mi, s, us, tz>>   <<"datetime", y, m, d, h, mi, s, us, tz>>
IsoOf(v) ==
  CASE v[1] = "date"     -> IsoDate(v[2], v[3], v[4])
    [] v[1] = "time"     -> IsoClock(v[2], v[3], v[4], v[5]) \o OffSuffix(v[6])
    [] v[1] = "datetime" -> IsoDate(v[2], v[3], v[4]) \o "T" \o IsoClock(v[5], v[6], v[7], v[8]) \o OffSuffix(v[9])

\* ---- floats: <<"float", mantissa, exp10>> with mantissa not divisible by 10 (0 => <<"float",0,0>>)
RECURSIVE NormFloat(_, _)
NormFloat(m, e) == IF m = 0 THEN <<"float", 0, 0>>
                   ELSE IF m % 10 = 0 THEN NormFloat(m \div 10, e + 1) ELSE <<"float", m, e>>
\* timedelta <<"td", days, secs, micros>> -> total seconds (exact rational, decimal with <= 6 places)
TotalSeconds(v) ==
  LET sec == v[2] * 86400 + v[3]
  IN  IF v[4] = 0 THEN NormFloat(sec, 0) ELSE NormFloat(sec * 1000000 + v[4], -6)

\* ---- base64.encodebytes: 57-byte lines, each followed by "\n"; "" for empty input
B64 == <<"A","B","C","D","E","F","G","H","I","J","K","L","M","N","O","P","Q","R","S","T","U","V","W","X","Y","Z",
         "a","b","c","d","e","f","g","h","i","j","k","l","m","n","o","p","q","r","s","t","u","v","w","x","y","z",
         "0","1","2","3","4","5","6","7","8","9","+","/">>
Ch(i) == B64[i + 1]
Group(b) == LET n == Len(b)
                x == b[1] * 65536 + (IF n >= 2 THEN b[2] ELSE 0) * 256 + (IF n >= 3 THEN b[3] ELSE 0)
            IN  Ch(x \div 262144) \o Ch((x \div 4096) % 64)
                \o (IF n >= 2 THEN Ch((x \div 64) % 64) ELSE "=") \o (IF n >= 3 THEN Ch(x % 64) ELSE "=")
Min2(a, b) == IF a < b THEN a ELSE b
RECURSIVE EncLine(_)
EncLine(b) == IF b = <<>> THEN ""
              ELSE LET k == Min2(3, Len(b)) IN Group(SubSeq(b, 1, k)) \o EncLine(SubSeq(b, k + 1, Len(b)))
RECURSIVE EncodeBytes(_)
EncodeBytes(b) == IF b = <<>> THEN ""
                  ELSE LET k == Min2(57, Len(b)) IN EncLine(SubSeq(b, 1, k)) \o "\n" \o EncodeBytes(SubSeq(b, k + 1, Len(b)))

\* ---- Python equality between scalar value terms (used by Enum(value) and Literal)
NumVal(v) == CASE v[1] = "int" -> <<v[2], 0>>
               [] v[1] = "bool" -> <<(IF v[2] THEN 1 ELSE 0), 0>>
               [] v[1] = "float" -> <<v[2], v[3]>>
IsSmallNum(v) == v[1] \in {"int", "bool", "float"}
NormNum(p) == LET f == NormFloat(p[1], p[2]) IN <<f[2], f[3]>>
PyEq(a, b) == IF IsSmallNum(a) /\ IsSmallNum(b) THEN NormNum(NumVal(a)) = NormNum(NumVal(b))
              ELSE a = b

\* enums: type term <<"enum", name, kind, members>>, members = << <<mname, valueTerm>>, ... >>
\* value term <<"enum", name, mname>>
EnumMembers(T) == T[4]
EnumValueOf(T, v) == PairsGet(EnumMembers(T), v[3])
\* E(j): the first member whose value == j (Python equality)
EnumByValue(T, j) ==
  LET ms == EnumMembers(T)
      hits == { i \in DOMAIN ms : PyEq(ms[i][2], j) }
      \* an enum class may define _missing_: << <<"missing", member>> >> as 5th component = every unknown value becomes that member
      \* (the documented constructor of the ENUM TYPE; a Literal listing a member compares with the member's value, never through it)
      opts == IF Len(T) >= 5 THEN T[5] ELSE <<>>
      catch == IF \E i \in DOMAIN opts : opts[i][1] = "missing" THEN (CHOOSE o \in Range(opts) : o[1] = "missing")[2] ELSE "#none"
  IN  IF hits = {} THEN (IF catch = "#none" THEN Err("enum") ELSE Ok(<<"enum", T[2], catch>>))
      ELSE Ok(<<"enum", T[2], ms[CHOOSE i \in hits : \A k \in hits : i <= k][1]>>)
=============================================================================
