----------------------------- MODULE JsonSchema -----------------------------
(***************************************************************************)
(* JSON Schema Draft 2020-12 validation for the keyword subset mashumaro   *)
(* can emit, over JSON-as-term documents (DESIGN.md 3.2):                  *)
(*   <<"o", << <<k, v>>, ... >> >>  <<"a", <<...>> >>  <<"s", str>>        *)
(*   <<"n", int>>  <<"f", mantissa, exp10>>  <<"b", 0|1>>  <<"z">> (null)  *)
(* $ref strings are resolved through RefPaths: a sequence of               *)
(* << refString, << key, ... >> >> (the JSON pointer split by the recorder,*)
(* pure translation) walked from the root document.                        *)
(* Verdicts: "valid" | "invalid" | "unmodelled" (a keyword / pattern this  *)
(* transcription does not cover: counted, never judged).                   *)
(***************************************************************************)
EXTENDS Leaf

Has(o, k) == o[1] = "o" /\ \E i \in DOMAIN o[2] : o[2][i][1] = k
Get(o, k) == o[2][CHOOSE i \in DOMAIN o[2] : o[2][i][1] = k][2]
Keys(o) == { o[2][i][1] : i \in DOMAIN o[2] }

Annotations == {"title", "description", "default", "format", "examples", "deprecated", "$schema", "$id", "$defs", "$comment",
                "readOnly", "writeOnly", "contentEncoding", "contentMediaType", "components", "definitions"}
Modelled == {"type", "enum", "const", "anyOf", "$ref", "properties", "required", "additionalProperties", "propertyNames",
             "items", "prefixItems", "minItems", "maxItems", "uniqueItems", "minLength", "maxLength", "minProperties", "maxProperties",
             "pattern", "allOf", "oneOf", "not", "minimum", "maximum", "exclusiveMinimum", "exclusiveMaximum", "multipleOf",
             "contains", "minContains", "maxContains", "dependentRequired"} \cup Annotations

\* JSON equality: 1 and 1.0 are the same number
NumForm(j) == IF j[1] = "n" THEN NormFloat(j[2], 0) ELSE IF j[1] = "f" THEN NormFloat(j[2], j[3]) ELSE j
RECURSIVE JEq(_, _)
JEq(a, b) ==
  CASE a[1] \in {"n", "f"} /\ b[1] \in {"n", "f"} -> NumForm(a) = NumForm(b)
    [] a[1] = "a" /\ b[1] = "a" -> Len(a[2]) = Len(b[2]) /\ \A i \in DOMAIN a[2] : JEq(a[2][i], b[2][i])
    [] a[1] = "o" /\ b[1] = "o" -> Keys(a) = Keys(b) /\ \A k \in Keys(a) : JEq(Get(a, k), Get(b, k))
    [] OTHER -> a = b

V(b) == IF b THEN "valid" ELSE "invalid"
IsSmallInt(j) == j[1] \in {"n", "f"} /\ NumForm(j)[3] >= 0 /\ NumForm(j)[3] <= 6 /\ NumForm(j)[2] < 2000 /\ NumForm(j)[2] > -2000
\* order of JSON numbers m * 10^e: exact over a common exponent; "far" when the exponents are too far apart for 32-bit
\* arithmetic (the event is then unmodelled, never judged)
Pow10(k) == CASE k = 0 -> 1 [] k = 1 -> 10 [] k = 2 -> 100 [] k = 3 -> 1000 [] k = 4 -> 10000 [] k = 5 -> 100000 [] k = 6 -> 1000000
NumCmp(a, b) ==
  LET x == NumForm(a)  y == NumForm(b)
      e == IF x[3] < y[3] THEN x[3] ELSE y[3] IN
  IF x[3] - e > 6 \/ y[3] - e > 6 \/ x[2] > 2000 \/ x[2] < -2000 \/ y[2] > 2000 \/ y[2] < -2000 THEN "far"
  ELSE LET p == x[2] * Pow10(x[3] - e)  q == y[2] * Pow10(y[3] - e) IN
       IF p < q THEN "lt" ELSE IF p = q THEN "eq" ELSE "gt"
\* j is a multiple of d (both integral and small)
MultOf(j, d) == IF IsSmallInt(j) /\ IsSmallInt(d) /\ NumForm(d)[2] # 0
                THEN V((NumForm(j)[2] * Pow10(NumForm(j)[3])) % (NumForm(d)[2] * Pow10(NumForm(d)[3])) = 0) ELSE "unmodelled"
Bound(s, kw, j, okset) == IF ~Has(s, kw) THEN "valid"
                          ELSE LET c == NumCmp(j, Get(s, kw)) IN IF c = "far" THEN "unmodelled" ELSE V(c \in okset)

IsIntegral(j) == j[1] = "n" \/ (j[1] = "f" /\ NumForm(j)[3] >= 0)
TypeIs(t, j) ==
  CASE t = "null"    -> j[1] = "z"
    [] t = "boolean" -> j[1] = "b"
    [] t = "integer" -> IsIntegral(j)
    [] t = "number"  -> j[1] \in {"n", "f"}
    [] t = "string"  -> j[1] = "s"
    [] t = "array"   -> j[1] = "a"
    [] t = "object"  -> j[1] = "o"
    [] OTHER -> FALSE
TypeOk(tj, j) == IF tj[1] = "s" THEN TypeIs(tj[2], j) ELSE \E i \in DOMAIN tj[2] : TypeIs(tj[2][i][2], j)

UtcPattern == "^UTC([+-][0-2][0-9]:[0-5][0-9])?$"

RECURSIVE Walk(_, _)
Walk(doc, path) == IF path = <<>> THEN doc ELSE Walk(Get(doc, path[1]), Tail(path))
RefTarget(root, refs, r) == Walk(root, PairsGet(refs, r))
RefKnown(root, refs, r) ==
  /\ PairsHas(refs, r)
  /\ LET p == PairsGet(refs, r) IN
     \A n \in 1..Len(p) : Has(Walk(root, SubSeq(p, 1, n - 1)), p[n])

\* three-valued conjunction over a set of verdicts
AllV(Z) == IF "invalid" \in Z THEN "invalid" ELSE IF "unmodelled" \in Z THEN "unmodelled" ELSE "valid"
AnyV(Z) == IF "valid" \in Z THEN "valid" ELSE IF "unmodelled" \in Z THEN "unmodelled" ELSE "invalid"

RECURSIVE Valid(_, _, _, _)
Valid(s, root, refs, j) ==
  IF s[1] = "b" THEN V(s[2] = 1)
  ELSE IF s[1] # "o" THEN "unmodelled"
  ELSE IF Keys(s) \ Modelled # {} THEN "unmodelled"
  ELSE AllV(
    { IF Has(s, "$ref") THEN (IF RefKnown(root, refs, Get(s, "$ref")[2]) THEN Valid(RefTarget(root, refs, Get(s, "$ref")[2]), root, refs, j) ELSE "invalid") ELSE "valid",
      IF Has(s, "type") THEN V(TypeOk(Get(s, "type"), j)) ELSE "valid",
      IF Has(s, "enum") THEN V(\E i \in DOMAIN Get(s, "enum")[2] : JEq(Get(s, "enum")[2][i], j)) ELSE "valid",
      IF Has(s, "const") THEN V(JEq(Get(s, "const"), j)) ELSE "valid",
      IF Has(s, "anyOf") THEN AnyV({ Valid(Get(s, "anyOf")[2][i], root, refs, j) : i \in DOMAIN Get(s, "anyOf")[2] }) ELSE "valid",
      IF Has(s, "allOf") THEN AllV({ Valid(Get(s, "allOf")[2][i], root, refs, j) : i \in DOMAIN Get(s, "allOf")[2] }) ELSE "valid",
      IF Has(s, "oneOf") \/ Has(s, "not") THEN "unmodelled" ELSE "valid",
      IF Has(s, "pattern") /\ j[1] = "s"
        THEN (IF Get(s, "pattern")[2] = UtcPattern /\ (\E m \in TzOffsets : TzTable[m] = j[2]) THEN "valid" ELSE "unmodelled")
        ELSE "valid",
      IF j[1] \in {"n", "f"} THEN AllV({ Bound(s, "minimum", j, {"gt", "eq"}), Bound(s, "maximum", j, {"lt", "eq"}),
                                         Bound(s, "exclusiveMinimum", j, {"gt"}), Bound(s, "exclusiveMaximum", j, {"lt"}),
                                         IF Has(s, "multipleOf") THEN MultOf(j, Get(s, "multipleOf")) ELSE "valid" }) ELSE "valid",
      IF j[1] = "s" THEN V(/\ (Has(s, "minLength") => Len(j[2]) >= Get(s, "minLength")[2])
                           /\ (Has(s, "maxLength") => Len(j[2]) <= Get(s, "maxLength")[2])) ELSE "valid",
      IF j[1] = "o" THEN
        AllV({ V(Has(s, "required") => \A i \in DOMAIN Get(s, "required")[2] : Has(j, Get(s, "required")[2][i][2])),
               V(Has(s, "minProperties") => Len(j[2]) >= Get(s, "minProperties")[2]),
               V(Has(s, "maxProperties") => Len(j[2]) <= Get(s, "maxProperties")[2]),
               V(Has(s, "dependentRequired") => \A d \in DOMAIN Get(s, "dependentRequired")[2] :
                     LET dep == Get(s, "dependentRequired")[2][d] IN
                     Has(j, dep[1]) => \A q \in DOMAIN dep[2][2] : Has(j, dep[2][2][q][2])) }
             \cup { LET k == j[2][i][1]  x == j[2][i][2]
                        named == Has(s, "properties") /\ Has(Get(s, "properties"), k) IN
                    AllV({ IF named THEN Valid(Get(Get(s, "properties"), k), root, refs, x) ELSE "valid",
                           IF Has(s, "additionalProperties") /\ ~named THEN Valid(Get(s, "additionalProperties"), root, refs, x) ELSE "valid",
                           IF Has(s, "propertyNames") THEN Valid(Get(s, "propertyNames"), root, refs, <<"s", k>>) ELSE "valid" })
                    : i \in DOMAIN j[2] })
      ELSE "valid",
      IF j[1] = "a" THEN
        LET n == Len(j[2])
            pre == IF Has(s, "prefixItems") THEN Get(s, "prefixItems")[2] ELSE <<>> IN
        AllV({ V(Has(s, "minItems") => n >= Get(s, "minItems")[2]),
               V(Has(s, "maxItems") => n <= Get(s, "maxItems")[2]),
               V((Has(s, "uniqueItems") /\ Get(s, "uniqueItems") = <<"b", 1>>) => \A a, b \in 1..n : a # b => ~JEq(j[2][a], j[2][b])),
               \* contains / minContains / maxContains (minContains defaults to 1; both are ignored without "contains")
               IF ~Has(s, "contains") THEN "valid"
               ELSE LET vs == [i \in 1..n |-> Valid(Get(s, "contains"), root, refs, j[2][i])] IN
                    IF \E i \in 1..n : vs[i] = "unmodelled" THEN "unmodelled"
                    ELSE LET cnt == Cardinality({ i \in 1..n : vs[i] = "valid" }) IN
                         V(/\ cnt >= (IF Has(s, "minContains") THEN Get(s, "minContains")[2] ELSE 1)
                           /\ (Has(s, "maxContains") => cnt <= Get(s, "maxContains")[2])) }
             \cup { IF i <= Len(pre) THEN Valid(pre[i], root, refs, j[2][i])
                    ELSE IF Has(s, "items") THEN Valid(Get(s, "items"), root, refs, j[2][i]) ELSE "valid" : i \in 1..n })
      ELSE "valid" })

\* ---- WellFormed: the Draft 2020-12 metaschema restricted to these keywords (C20)
SimpleTypes == {"null", "boolean", "integer", "number", "string", "array", "object"}
IsNat(j) == j[1] = "n" /\ j[2] >= 0
RECURSIVE WellFormed(_)
WellFormed(s) ==
  IF s[1] = "b" THEN TRUE
  ELSE IF s[1] # "o" THEN FALSE
  ELSE
    /\ Has(s, "type") => LET t == Get(s, "type") IN
         \/ (t[1] = "s" /\ t[2] \in SimpleTypes)
         \/ (t[1] = "a" /\ Len(t[2]) >= 1 /\ (\A i \in DOMAIN t[2] : t[2][i][1] = "s" /\ t[2][i][2] \in SimpleTypes)
             /\ (\A p, q \in DOMAIN t[2] : p # q => t[2][p] # t[2][q]))
    /\ Has(s, "enum") => Get(s, "enum")[1] = "a"
    /\ \A kw \in {"anyOf", "allOf", "oneOf", "prefixItems"} : Has(s, kw) =>
         (Get(s, kw)[1] = "a" /\ Len(Get(s, kw)[2]) >= 1 /\ \A i \in DOMAIN Get(s, kw)[2] : WellFormed(Get(s, kw)[2][i]))
    /\ \A kw \in {"items", "additionalProperties", "propertyNames", "not", "contains"} : Has(s, kw) => WellFormed(Get(s, kw))
    /\ \A kw \in {"properties", "$defs", "patternProperties"} : Has(s, kw) =>
         (Get(s, kw)[1] = "o" /\ \A i \in DOMAIN Get(s, kw)[2] : WellFormed(Get(s, kw)[2][i][2]))
    /\ Has(s, "required") => (Get(s, "required")[1] = "a" /\ (\A i \in DOMAIN Get(s, "required")[2] : Get(s, "required")[2][i][1] = "s")
                                /\ (\A p, q \in DOMAIN Get(s, "required")[2] : p # q => Get(s, "required")[2][p] # Get(s, "required")[2][q]))
    /\ \A kw \in {"minItems", "maxItems", "minLength", "maxLength", "minProperties", "maxProperties"} : Has(s, kw) => IsNat(Get(s, kw))
    /\ Has(s, "uniqueItems") => Get(s, "uniqueItems")[1] = "b"
    /\ \A kw \in {"minimum", "maximum", "exclusiveMinimum", "exclusiveMaximum"} : Has(s, kw) => Get(s, kw)[1] \in {"n", "f"}
    /\ Has(s, "multipleOf") => (Get(s, "multipleOf")[1] \in {"n", "f"} /\ NumForm(Get(s, "multipleOf"))[2] > 0)
    /\ \A kw \in {"minContains", "maxContains"} : Has(s, kw) => IsNat(Get(s, kw))
    /\ Has(s, "dependentRequired") => (Get(s, "dependentRequired")[1] = "o" /\ \A i \in DOMAIN Get(s, "dependentRequired")[2] :
           LET d == Get(s, "dependentRequired")[2][i][2] IN d[1] = "a" /\ \A q \in DOMAIN d[2] : d[2][q][1] = "s")
    /\ \A kw \in {"$ref", "pattern", "title", "description", "format", "$schema", "$id"} : Has(s, kw) => Get(s, kw)[1] = "s"

\* every $ref emitted anywhere in the document
RECURSIVE Refs(_)
Refs(s) ==
  CASE s[1] = "o" -> (IF Has(s, "$ref") /\ Get(s, "$ref")[1] = "s" THEN { Get(s, "$ref")[2] } ELSE {})
                     \cup UNION { Refs(s[2][i][2]) : i \in DOMAIN s[2] }
    [] s[1] = "a" -> UNION { Refs(s[2][i]) : i \in DOMAIN s[2] }
    [] OTHER -> {}

\* satisfiability of what the builder emits for containers (C06): no maxItems < minItems, no empty enum
RECURSIVE Satisfiable(_)
Satisfiable(s) ==
  CASE s[1] = "o" ->
         /\ (Has(s, "minItems") /\ Has(s, "maxItems")) => Get(s, "minItems")[2] <= Get(s, "maxItems")[2]
         /\ Has(s, "enum") => Len(Get(s, "enum")[2]) >= 1
         /\ \A i \in DOMAIN s[2] : s[2][i][1] \in {"default", "examples", "const", "enum"} \/ Satisfiable(s[2][i][2])
    [] s[1] = "a" -> \A i \in DOMAIN s[2] : Satisfiable(s[2][i])
    [] OTHER -> TRUE
=============================================================================
