-------------------------------- MODULE Heap ---------------------------------
(***************************************************************************)
(* C18 -- no hidden sharing.  A PATH addresses a position inside a value:  *)
(* a sequence of indexes (dataclass field index, list index, position of   *)
(* the pair in a mapping -- its value).  SharedPaths(T, cx, v) is the set  *)
(* of paths of MUTABLE CONTAINERS of v that the serialized output may (and *)
(* must) share by identity: exactly the positions whose origin type is     *)
(* listed in no_copy_collections and whose elements need no conversion;    *)
(* everything inside such a position is shared with it.                    *)
(***************************************************************************)
EXTENDS Unpack

IsContainerV(v) == v[1] \in {"list", "dict", "set", "deque", "OrderedDict", "defaultdict", "Counter", "ChainMap", "bytearray"}

RECURSIVE AllContainerPaths(_, _)
\* every mutable container inside value v (paths relative to pre)
AllContainerPaths(v, pre) ==
  (IF IsContainerV(v) THEN {pre} ELSE {})
  \cup CASE v[1] \in {"list", "tuple", "deque"} -> UNION { AllContainerPaths(v[2][i], Append(pre, i)) : i \in DOMAIN v[2] }
         [] v[1] \in {"dict", "OrderedDict", "defaultdict", "Counter"} -> UNION { AllContainerPaths(v[2][i][2], Append(pre, i)) : i \in DOMAIN v[2] }
         [] v[1] = "obj" -> UNION { AllContainerPaths(v[3][i], Append(pre, i)) : i \in DOMAIN v[3] }
         [] v[1] = "sobj" -> AllContainerPaths(v[3], Append(pre, 1))          \* the value a SerializableType wrapper holds (and hands out)
         [] OTHER -> {}

RECURSIVE AnyPaths(_, _, _)
\* containers sitting at / below a position annotated Any (excepted by the statement)
AnyPaths(T, v, pre) ==
  CASE T[1] = "any" -> AllContainerPaths(v, pre)
    [] T[1] = "dc" -> UNION { AnyPaths(FType(DcFields(T)[i]), v[3][i], Append(pre, i)) : i \in DOMAIN DcFields(T) }
    [] T[1] \in {"list", "deque", "seq", "mseq", "vtuple"} -> UNION { AnyPaths(T[2], v[2][i], Append(pre, i)) : i \in DOMAIN v[2] }
    [] T[1] = "tuple" -> UNION { AnyPaths(T[2][i], v[2][i], Append(pre, i)) : i \in DOMAIN T[2] }
    [] T[1] \in {"dict", "odict", "ddict", "mapping", "mmapping"} -> UNION { AnyPaths(T[3], v[2][i][2], Append(pre, i)) : i \in DOMAIN v[2] }
    [] T[1] = "opt" -> IF IsNone(v) THEN {} ELSE AnyPaths(T[2], v, pre)
    [] T[1] = "stype" -> AnyPaths(T[3], v[3], Append(pre, 1))
    [] T[1] = "union" -> LET hits == { i \in DOMAIN T[2] : MatchesTag(T[2][i], v) } IN
                         IF hits = {} THEN {} ELSE AnyPaths(T[2][CHOOSE i \in hits : \A k \in hits : i <= k], v, pre)
    [] OTHER -> {}

RECURSIVE SharedPaths(_, _, _, _)
SharedPaths(T, cx, v, pre) ==
  CASE T[1] = "dc" ->
         LET ncx == [NestCx(T, cx) EXCEPT !.levels = ClassLevels(T, cx), !.nocopy = ClassNoCopy(T, cx)] IN
         UNION { SharedPaths(FType(DcFields(T)[i]), [ncx EXCEPT !.fopt = FOpts(DcFields(T)[i])], v[3][i], Append(pre, i)) : i \in DOMAIN DcFields(T) }
    [] T[1] \in {"list", "dict", "set"} /\ ConvFree(T, cx) -> AllContainerPaths(v, pre)        \* the very object, and all it holds
    [] T[1] \in {"list", "deque", "seq", "mseq", "vtuple"} -> UNION { SharedPaths(T[2], ElemCx(cx), v[2][i], Append(pre, i)) : i \in DOMAIN v[2] }
    [] T[1] = "tuple" -> UNION { SharedPaths(T[2][i], ElemCx(cx), v[2][i], Append(pre, i)) : i \in DOMAIN T[2] }
    [] T[1] \in {"dict", "odict", "ddict", "mapping", "mmapping"} -> UNION { SharedPaths(T[3], ElemCx(cx), v[2][i][2], Append(pre, i)) : i \in DOMAIN v[2] }
    [] T[1] = "opt" -> IF IsNone(v) THEN {} ELSE SharedPaths(T[2], cx, v, pre)
    \* what _serialize() hands out is converted by its return annotation like any value of that type: copied unless no_copy says otherwise
    [] T[1] = "stype" -> SharedPaths(T[3], ElemCx(cx), v[3], Append(pre, 1))
    [] T[1] = "union" -> LET hits == { i \in DOMAIN T[2] : MatchesTag(T[2][i], v) } IN
                         IF hits = {} THEN {} ELSE SharedPaths(T[2][CHOOSE i \in hits : \A k \in hits : i <= k], cx, v, pre)
    [] OTHER -> {}
=============================================================================
