----------------------------- MODULE SchemaTrace -----------------------------
(***************************************************************************)
(* Trace validation for C06 and C20: the recorder builds REAL schemas with *)
(* mashumaro.jsonschema and logs them (JSON-as-term) together with real    *)
(* serializer output; TLC judges every event with the TLA+ validator       *)
(* (JsonSchema.tla) and steps the builder-context state machine            *)
(*   ctx[b] = definitions collected so far by builder b   (DefsMonotone).  *)
(* Events:                                                                 *)
(*  ["Validate", id, root, refs, instance, libverdict]                     *)
(*  ["Schema",   id, root, refs, reffacts, defnames, libwellformed]        *)
(*  ["Required", id, T, objschema]                                         *)
(*  ["Distinct", id, refA, refB, sameClass]                                *)
(*  ["Defs",     id, builder, defs]       defs = << <<name, schema>> ... >>*)
(*  ["RoundTrip",id, before, after]       JSONSchema.from_dict(..).to_dict *)
(***************************************************************************)
EXTENDS JsonSchema, Pack, Json, IOUtils, TLCExt

Events == ndJsonDeserialize(IOEnv.TRACE_FILE)
VARIABLES l, ctx

ReqSet(T) == { FKeyByAlias(T, f) : f \in { g \in Range(DcFields(T)) : FDflt(g)[1] = "req" /\ FInit(g) } }
SchemaReq(s) == IF Has(s, "required") THEN { Get(s, "required")[2][i][2] : i \in DOMAIN Get(s, "required")[2] } ELSE {}

Clauses(e) ==
  CASE e[1] = "Validate" ->
         LET v == Valid(e[3], e[3], e[4], e[5]) IN
         IF v = "unmodelled" THEN {"UNMODELLED"}
         ELSE IF v # e[6] THEN {"UNDECIDED"}                      \* the two validators disagree: machinery self-test, never a verdict
         ELSE IF v = "invalid" THEN {"schema-rejects-output"} ELSE {}
    [] e[1] = "Schema" ->
         (IF WellFormed(e[3]) # e[7] THEN {"UNDECIDED"} ELSE IF ~e[7] THEN {"not-well-formed"} ELSE {})
         \cup (IF \A r \in Refs(e[3]) : RefKnown(e[3], e[4], r) THEN {} ELSE {"dangling-ref"})
         \cup (IF \A i \in DOMAIN e[5] : e[5][i][2] /\ e[5][i][3] \in Range(e[6]) THEN {} ELSE {"ref-outside-context"})
         \cup (IF Refs(e[3]) \subseteq { e[5][i][1] : i \in DOMAIN e[5] } THEN {} ELSE {"ref-not-recorded"})
         \cup (IF Satisfiable(e[3]) THEN {} ELSE {"unsatisfiable"})
    [] e[1] = "Required" -> IF SchemaReq(e[4]) = ReqSet(NormT(e[3])) THEN {} ELSE {"required-mismatch"}
    [] e[1] = "Distinct" -> IF e[5] \/ e[3] # e[4] THEN {} ELSE {"shared-definition"}
    [] e[1] = "Defs" ->
         IF e[3] \in DOMAIN ctx
         THEN (IF \A i \in DOMAIN ctx[e[3]] : PairsHas(e[4], ctx[e[3]][i][1]) /\ PairsGet(e[4], ctx[e[3]][i][1]) = ctx[e[3]][i][2]
               THEN {} ELSE {"defs-not-monotone"})
         ELSE {}
    [] e[1] = "RoundTrip" -> IF JEq(e[3], e[4]) THEN {} ELSE {"model-roundtrip"}
    [] OTHER -> {"bad-event"}

Init == l = 1 /\ ctx = [b \in {} |-> <<>>]
Next == /\ l <= Len(Events)
        /\ l' = l + 1
        /\ LET e == Events[l] IN
           /\ ctx' = IF e[1] = "Defs" THEN [b \in DOMAIN ctx \cup {e[3]} |-> IF b = e[3] THEN e[4] ELSE ctx[b]] ELSE ctx
           /\ LET bad == Clauses(e) IN bad = {} \/ PrintT(ToJson(<<"BAD", e[2], bad>>))

Accepted == TLCGet("stats").diameter - 1 = Len(Events)
=============================================================================
