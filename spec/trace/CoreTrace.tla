------------------------------ MODULE CoreTrace ------------------------------
(***************************************************************************)
(* Trace validation (channel V) for C01 C02 C03 C05 C11: every line of the *)
(* ndjson trace is one call of the REAL library recorded by a driver,      *)
(*   ["Encode", id, T, v, res]      res = ["ok", wire] | ["err", ...]      *)
(*   ["Decode", id, T, j, res, unchanged]                                  *)
(*   ["Round",  id, T, v, res]      res = decode(encode(v)) on real objects*)
(* and is judged against the reference operators Pack / Unpack.  Verdicts  *)
(* are total: a bad line is reported and the rest of the trace is still    *)
(* consumed; acceptance = every line consumed (POSTCONDITION).             *)
(***************************************************************************)
EXTENDS Unpack, SequencesExt, TLCExt

Events == ndJsonDeserialize(IOEnv.TRACE_FILE)
VARIABLE l

Cx == DefaultCx
\* call options recorded with an event: << <<"omit_none", b>>, <<"by_alias", b>>, <<"dialect", options>> >> (keyword arguments of to_dict /
\* from_dict, only those the class enabled); no options = the default context
TriOf(o, k) == IF HasOpt(o, k) THEN (IF GetOpt(o, k, FALSE) THEN "yes" ELSE "no") ELSE "unset"
CallCx(o) == [DefaultCx EXCEPT !.omit_none = TriOf(o, "omit_none"), !.by_alias = TriOf(o, "by_alias"),
                               !.dlct = NormDialect(GetOpt(o, "dialect", <<>>)),
                               \* the default_dialect of a codec: the lowest level everywhere, the only level for the shape itself
                               !.fmtd = NormDialect(GetOpt(o, "default_dialect", <<>>)),
                               !.levels = << GetOpt(NormDialect(GetOpt(o, "default_dialect", <<>>)), "strategy", <<>>) >>,
                               !.nocopy = GetOpt(NormDialect(GetOpt(o, "default_dialect", <<>>)), "no_copy", {})]
\* ExtraKeysError carries a SET of keys (recorded as an array)
NormErr(r) == IF r[1] = "err" /\ r[2][1] = "Extra" THEN <<"err", <<"Extra", Range(r[2][2]), r[2][3]>> >> ELSE r
EvCx(e) == IF Len(e) >= 7 /\ e[7] # <<>> THEN CallCx(e[7]) ELSE DefaultCx

RECURSIVE WireEq(_, _)
WireEq(e, a) ==
  CASE e[1] = "bag"  -> /\ a[1] = "list"
                        /\ \A x \in e[2] : \E i \in DOMAIN a[2] : WireEq(x, a[2][i])
                        /\ \A i \in DOMAIN a[2] : \E x \in e[2] : WireEq(x, a[2][i])
    [] e[1] = "list" -> a[1] = "list" /\ Len(a[2]) = Len(e[2]) /\ \A i \in DOMAIN e[2] : WireEq(e[2][i], a[2][i])
    [] e[1] = "dict" -> a[1] = "dict" /\ Len(a[2]) = Len(e[2])
                        /\ \A i \in DOMAIN e[2] : WireEq(e[2][i][1], a[2][i][1]) /\ WireEq(e[2][i][2], a[2][i][2])
    [] OTHER -> e = a

RECURSIVE Listify(_)
Listify(w) ==
  CASE w[1] = "bag"  -> L(LET s == SetToSeq(w[2]) IN [i \in DOMAIN s |-> Listify(s[i])])
    [] w[1] = "list" -> L([i \in DOMAIN w[2] |-> Listify(w[2][i])])
    [] w[1] = "dict" -> Dct([i \in DOMAIN w[2] |-> <<Listify(w[2][i][1]), Listify(w[2][i][2])>>])
    [] OTHER -> w


\* set of failing clause names for one event ({} = conforms)
Clauses(e) ==
  CASE e[1] = "Encode" ->
         LET T == NormT(e[3]) v == NormV(e[4]) res == e[5] exp == Pack(T, EvCx(e), v) IN
         IF res[1] # "ok" THEN {"encode-raises"}
         ELSE (IF WireEq(exp, res[2]) THEN {} ELSE {"wire"})
              \cup (IF IsBasic(res[2], {}) \/ e[6] THEN {} ELSE {"not-basic"})
    [] e[1] = "Round" ->
         LET T == NormT(e[3]) v == NormV(e[4]) res == NormR(e[5])
             spec == Unpack(T, EvCx(e), Listify(Pack(T, EvCx(e), v))) IN
         IF IsUnknown(spec) THEN {"UNMODELLED"}
         ELSE IF ~IsOk(spec) \/ EqForm(spec[2]) # EqForm(v) THEN {"LOSSY-EXCLUDED"}   \* the statement's exclusions (ambiguous unions ...)
         ELSE IF IsOk(res) /\ EqForm(res[2]) = EqForm(v) THEN {} ELSE {"roundtrip"}
    [] e[1] = "Decode" ->
         LET T == NormT(e[3]) j == e[4] res == NormErr(NormR(e[5])) exp == Unpack(T, EvCx(e), j) IN
         (IF e[6] THEN {} ELSE {"input-mutated"}) \cup
         (IF IsUnknown(exp) THEN {"UNMODELLED"}
          ELSE IF IsOk(exp) THEN (IF ~IsOk(res) THEN {"decode-rejects"}
                                  ELSE IF res[2] # exp[2] THEN {"decode"}
                                  ELSE IF ~Conforms(T, res[2]) THEN {"ill-typed"} ELSE {})
          ELSE IF IsOk(res) THEN {"decode-accepts"}
          ELSE IF T[1] = "dc" /\ GetOpt(DcCfg(T), "mixin", "dict") # "plain"
               THEN (IF res[2][1] # exp[2][1] THEN {"error-kind"} ELSE IF res[2] # exp[2] THEN {"error-detail"} ELSE {})
               ELSE {})
    [] OTHER -> {"bad-event"}

\* what the reference prescribes for the event (diagnostics in the violation record)
Expected(e) ==
  CASE e[1] = "Encode" -> Pack(NormT(e[3]), EvCx(e), NormV(e[4]))
    [] e[1] = "Round"  -> Ok(e[4])
    [] e[1] = "Decode" -> Unpack(NormT(e[3]), EvCx(e), e[4])
    [] OTHER -> <<"none">>

Init == l = 1
Next == /\ l <= Len(Events)
        /\ l' = l + 1
        /\ LET bad == Clauses(Events[l]) IN bad = {} \/ PrintT(ToJson(<<"BAD", Events[l][2], bad, Expected(Events[l])>>))

Accepted == TLCGet("stats").diameter - 1 = Len(Events)
=============================================================================
