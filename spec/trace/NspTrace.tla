------------------------------ MODULE NspTrace -------------------------------
(***************************************************************************)
(* Trace validation for C17 (and the lexing part of C16) over facts        *)
(* recorded by the env-guarded hooks in mashumaro (bind / compile):        *)
(*  ["Bind", id, unit, name, objId, boundId, isType]                        *)
(*       after setdefault(name, obj): boundId is what the name denotes      *)
(*  ["Compile", id, unit, << <<name, resolved>>, ... >>, << <<chain, ok>> ... >>] *)
(*       every global name (and module-rooted attribute chain) loaded by    *)
(*       ANY code path of the generated functions, resolved against the     *)
(*       unit's final namespace and builtins                                *)
(* The spec steps nsp along the Bind events (first-wins, as the builder     *)
(* does) and reports: a name bound to an object other than the intended     *)
(* type (BoundByIdentity), an unresolvable name / attribute (Closed), and   *)
(* a recorded binding that contradicts the modelled namespace (MODEL-DRIFT).*)
(***************************************************************************)
EXTENDS Naturals, Sequences, FiniteSets, TLC, Json, IOUtils

Events == ndJsonDeserialize(IOEnv.TRACE_FILE)
VARIABLES l, nsp

Key(e) == <<e[3], e[4]>>
Clauses(e) ==
  CASE e[1] = "Bind" ->
         (IF Key(e) \in DOMAIN nsp /\ nsp[Key(e)] # e[6] THEN {"MODEL-DRIFT"} ELSE {})
         \cup (IF Key(e) \notin DOMAIN nsp /\ e[6] # e[5] THEN {"MODEL-DRIFT"} ELSE {})
         \cup (IF e[6] # e[5] /\ e[7] THEN {"bound-to-other-object"} ELSE {})
    [] e[1] = "Compile" ->
         (IF \A i \in DOMAIN e[4] : e[4][i][2] THEN {} ELSE {"unresolved-name"})
         \cup (IF \A i \in DOMAIN e[5] : e[5][i][2] THEN {} ELSE {"unresolved-attribute"})
    [] OTHER -> {"bad-event"}

Init == l = 1 /\ nsp = [k \in {} |-> 0]
Next == /\ l <= Len(Events)
        /\ l' = l + 1
        /\ LET e == Events[l] IN
           /\ nsp' = IF e[1] = "Bind" /\ Key(e) \notin DOMAIN nsp
                     THEN [k \in DOMAIN nsp \cup {Key(e)} |-> IF k = Key(e) THEN e[6] ELSE nsp[k]] ELSE nsp
           /\ LET bad == Clauses(e) IN bad = {} \/ PrintT(ToJson(<<"BAD", e[2], bad>>))
Accepted == TLCGet("stats").diameter - 1 = Len(Events)
=============================================================================
