--------------------------- MODULE RegistryThreads ---------------------------
(***************************************************************************)
(* C14 / C12, "not on how many threads make the first call at once": the   *)
(* lazily filled tag -> class registry of a discriminated position under   *)
(* concurrent first calls.  A call by thread t for tag g runs through      *)
(*   Lookup   read the registry; hit -> done                               *)
(*   Refill   miss: walk the subclasses and register every tag             *)
(*   Final    look the tag up again -> the variant, or "no such variant"    *)
(* Refill = "add" (what the generated code does: registrations are only    *)
(* ever added, so a tag some thread has registered stays visible to every  *)
(* thread) | "clear-then-add" (deviant: the shared map is emptied before   *)
(* the rescan -- between another thread's Refill and its Final).           *)
(***************************************************************************)
EXTENDS Naturals, FiniteSets, TLC

CONSTANTS Thr, Tags, Refill        \* every thread asks for a tag of an existing class
VARIABLES reg, pc, res, want

Init == reg = {} /\ pc = [t \in Thr |-> "start"] /\ res = [t \in Thr |-> "none"] /\ want = [t \in Thr |-> "none"]

\* threads may ask for the same or for different tags
Lookup(t, g) == /\ pc[t] = "start" /\ want' = [want EXCEPT ![t] = g]
                /\ IF g \in reg THEN pc' = [pc EXCEPT ![t] = "done"] /\ res' = [res EXCEPT ![t] = "found"]
                   ELSE pc' = [pc EXCEPT ![t] = IF Refill = "add" THEN "scan" ELSE "clear"] /\ res' = res
                /\ UNCHANGED reg
Clear(t) == /\ pc[t] = "clear" /\ reg' = {} /\ pc' = [pc EXCEPT ![t] = "scan"] /\ UNCHANGED <<res, want>>
Scan(t) == /\ pc[t] = "scan" /\ reg' = reg \cup Tags /\ pc' = [pc EXCEPT ![t] = "final"] /\ UNCHANGED <<res, want>>
Final(t) == /\ pc[t] = "final"
            /\ res' = [res EXCEPT ![t] = IF want[t] \in reg THEN "found" ELSE "no-such-variant"]
            /\ pc' = [pc EXCEPT ![t] = "done"] /\ UNCHANGED <<reg, want>>
Next == \E t \in Thr : (\E g \in Tags : Lookup(t, g)) \/ Clear(t) \/ Scan(t) \/ Final(t)

\* every completed call finds the class that exists
Faithful == \A t \in Thr : pc[t] = "done" => res[t] = "found"
\* registrations are never withdrawn
Monotone == [][reg \subseteq reg']_<<reg, pc, res, want>>
=============================================================================
