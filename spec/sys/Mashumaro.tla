------------------------------ MODULE Mashumaro ------------------------------
(***************************************************************************)
(* The library as a state machine over the mutable state it keeps between  *)
(* calls (DESIGN.md 3.4):                                                  *)
(*                                                                         *)
(*   defined   classes defined so far (definition order)                   *)
(*   methods   [class -> [dir -> "stub" | "real"]]    lazy stubs vs real   *)
(*   dcache    [class -> [dir -> set of dialect names]] per-class dialect  *)
(*             caches, created in the class's OWN namespace                *)
(*   codecs    set of codec holders created so far (id, dir, dialect)      *)
(*   gspecs    [dir -> set of <<key, specialised class term>>]: the        *)
(*             specialisations of nested GENERIC dataclasses installed on  *)
(*             the generic class, keyed by a name derived from the type    *)
(*             arguments (first compilation under a key wins)              *)
(*   hist      observable history (what a client of the API saw)           *)
(*   last      the artifact used by the last call (implementation level)   *)
(*                                                                         *)
(* A compiled ARTIFACT is <<class name, dir, dialect name>>: the function   *)
(* computed by the generated program that was compiled for that class and  *)
(* that dialect.  The result of a call is the reference outcome            *)
(* (Pack / Unpack of spec/ref) of the artifact that the dispatch mechanism *)
(* (stub -> compile -> install; cache hit / miss -> compile -> insert)     *)
(* selects.  Faithful: the selected artifact is always the one for the     *)
(* receiver class and the requested dialect, i.e. results never depend on  *)
(* the history (C13 C14 C15).                                              *)
(*                                                                         *)
(* The class family and the dialects are constants of the model (MC_Sys).  *)
(***************************************************************************)
EXTENDS Discr, Json, SequencesExt

CONSTANTS ClassOf(_),     \* name -> dataclass term
          ParentOf(_),    \* name -> parent name or "#none"
          Names,          \* class names of the family, base classes first
          DialectOf(_),   \* dialect name -> dialect option list ("none" -> <<>>)
          DNames,         \* dialect names usable in calls (includes "none")
          ValueOf(_),     \* class name -> instance to serialise
          InputOf(_),     \* class name -> input to deserialise
          MaxLen,
          CacheMode,      \* "own" (documented: every class owns its caches, one per direction AND format) |
                          \* "inherited" (deviant: found through the parent) | "noformat" (deviant: not keyed by format)
          Codecs,         \* TRUE: CreateCodec / CodecCall actions enabled (C15)
          FmtsOf(_),      \* class name -> set of formats its mixin offers ("dict" always; "msgpack" / "orjson" for format mixins)
          KwNames,        \* keyword arguments usable in calls: subset of {"none", "omit_none", "by_alias", "newline"}
          SpecKeyMode     \* "exact" (documented: one specialisation per distinct tuple of type arguments, member ORDER included) |
                          \* "equal" (deviant: type arguments that compare equal, e.g. Union[int, str] and Union[str, int], share one)

VARIABLES defined, methods, dcache, codecs, gspecs, hist, last

Dirs == {"to", "from"}
IsLazy(n) == GetOpt(DcCfg(ClassOf(n)), "lazy", FALSE)
HasDialects(n) == "dialect_flag" \in Flags(ClassOf(n))

\* the format dialect of a format mixin and what its parser hands back untouched
FmtDialect(f) == IF f = "msgpack" THEN << <<"no_copy", {"list", "dict"}>> >>
                 ELSE IF f = "orjson" THEN << <<"no_copy", {"list", "dict"}>> >> ELSE <<>>
NativeOf(f) == IF f = "msgpack" THEN {"bytes", "bytearray"} ELSE {}
CxFor(f, d, kw) == [DefaultCx EXCEPT !.dlct = DialectOf(d), !.native = NativeOf(f), !.fmtd = FmtDialect(f),
                                      !.omit_none = IF kw = "omit_none" THEN "yes" ELSE "unset",
                                      !.by_alias = IF kw = "by_alias" THEN "yes" ELSE "unset"]
\* the argument of a call: the instance, or the input document of the format (as its parser would hand it over)
ArgOf(n, dir, f) == IF dir = "to" THEN ValueOf(n) ELSE IF f = "dict" THEN InputOf(n) ELSE Pack(ClassOf(n), CxFor(f, "none", "none"), ValueOf(n))
\* what artifact <<n, dir, fmt, d>> computes for keyword kw
ArtifactResult(a, kw, x) == IF a[2] = "to" THEN Pack(ClassOf(a[1]), CxFor(a[3], a[4], kw), x) ELSE Unpack(ClassOf(a[1]), CxFor(a[3], a[4], kw), x)
\* what ANY completed call must return: a function of class, direction, format, dialect, keyword and argument only
Outcome(n, dir, f, d, kw) == ArtifactResult(<<n, dir, f, d>>, kw, ArgOf(n, dir, f))

\* "an otherwise identical class whose default dialect is D" (C13): D layered over the class's own default dialect
Layer(dn, own) == DialectOf(dn) \o own
\* the twin of a FAMILY: every class reached through classes that enabled dialect support gets the
\* default dialect Layer(D, its own default dialect); a class that did not opt in is left untouched
\* (and shields everything below it), which is the documented forwarding rule for nested classes
RECURSIVE TwinT(_, _)
TwinT(T, d) ==
  CASE T[1] = "dc" ->
         IF "dialect_flag" \notin Flags(T) THEN T
         ELSE LET cfg == DcCfg(T)
                  own == GetOpt(cfg, "dialect", <<>>)
                  rest == SelectSeq(cfg, LAMBDA o : o[1] # "dialect")
                  base(o) == IF o[1] = "bases" THEN <<"bases", [k \in DOMAIN o[2] |-> TwinT(o[2][k], d)]>> ELSE o
              IN  <<"dc", T[2], [i \in DOMAIN T[3] |-> <<T[3][i][1], TwinT(T[3][i][2], d), T[3][i][3], T[3][i][4]>>],
                    [i \in DOMAIN rest |-> base(rest[i])] \o << <<"dialect", Layer(d, own)>> >> >>
    [] T[1] \in {"list", "opt", "set", "deque", "vtuple", "seq", "frozenset"} -> <<T[1], TwinT(T[2], d)>>
    [] T[1] \in {"dict", "mapping", "odict"} -> <<T[1], T[2], TwinT(T[3], d)>>
    [] T[1] \in {"tuple", "union"} -> <<T[1], [i \in DOMAIN T[2] |-> TwinT(T[2][i], d)]>>
    [] OTHER -> T
Twin(n, d) == IF d = "none" THEN ClassOf(n) ELSE TwinT(ClassOf(n), d)

\* ---- nested generic dataclasses.  A dataclass term carrying the option <<"generic", <<params, args, template fields>> >>
\* is the specialisation Box[args] of the generic class Box: its MEANING is the plain dataclass with the arguments substituted
\* (that is the term itself); the MECHANISM compiles one method per specialisation and installs it on the generic class
\* under a name derived from the arguments, and finds it again by that name.
IsGeneric(T) == T[1] = "dc" /\ GetOpt(DcCfg(T), "generic", <<>>) # <<>>
GenArgs(T) == GetOpt(DcCfg(T), "generic", <<>>)[2]
RECURSIVE ArgKey(_)
ArgKey(T) ==
  CASE T[1] = "union" -> IF SpecKeyMode = "exact" THEN <<"union", [i \in DOMAIN T[2] |-> ArgKey(T[2][i])]>>
                         ELSE <<"union=", { ArgKey(T[2][i]) : i \in DOMAIN T[2] }>>
    [] T[1] \in {"list", "opt", "set", "deque", "vtuple", "seq", "frozenset"} -> <<T[1], ArgKey(T[2])>>
    [] T[1] \in {"dict", "mapping", "odict"} -> <<T[1], ArgKey(T[2]), ArgKey(T[3])>>
    [] T[1] = "tuple" -> <<"tuple", [i \in DOMAIN T[2] |-> ArgKey(T[2][i])]>>
    [] OTHER -> T
SpecKey(T) == <<T[2], [i \in DOMAIN GenArgs(T) |-> ArgKey(GenArgs(T)[i])]>>
\* the generic specialisations a class term refers to, in compilation (field) order
RECURSIVE GenSeq(_)
GenSeq(T) ==
  CASE T[1] = "dc" -> (IF IsGeneric(T) THEN <<T>> ELSE <<>>) \o FlattenSeq([i \in DOMAIN T[3] |-> GenSeq(T[3][i][2])])
    [] T[1] \in {"list", "opt", "set", "deque", "vtuple", "seq", "frozenset"} -> GenSeq(T[2])
    [] T[1] \in {"dict", "mapping", "odict"} -> GenSeq(T[3])
    [] T[1] \in {"tuple", "union"} -> FlattenSeq([i \in DOMAIN T[2] |-> GenSeq(T[2][i])])
    [] OTHER -> <<>>
\* compiling a method of class term T installs every specialisation whose key is not taken yet
InstallSpecs(tab, T) ==
  FoldLeft(LAMBDA acc, g : IF \E e \in acc : e[1] = SpecKey(g) THEN acc ELSE acc \cup {<<SpecKey(g), g>>}, tab, GenSeq(T))
\* the class term a compiled method of T actually computes with: every specialisation is whatever sits under its key
RECURSIVE Resolve(_, _)
Resolve(T, tab) ==
  CASE T[1] = "dc" ->
         LET U == IF IsGeneric(T) /\ (\E e \in tab : e[1] = SpecKey(T)) THEN (CHOOSE e \in tab : e[1] = SpecKey(T))[2] ELSE T IN
         <<"dc", U[2], [i \in DOMAIN U[3] |-> <<U[3][i][1], Resolve(U[3][i][2], tab), U[3][i][3], U[3][i][4]>>], U[4]>>
    [] T[1] \in {"list", "opt", "set", "deque", "vtuple", "seq", "frozenset"} -> <<T[1], Resolve(T[2], tab)>>
    [] T[1] \in {"dict", "mapping", "odict"} -> <<T[1], T[2], Resolve(T[3], tab)>>
    [] T[1] \in {"tuple", "union"} -> <<T[1], [i \in DOMAIN T[2] |-> Resolve(T[2][i], tab)]>>
    [] OTHER -> T
Mechanism(n, tab) == IF GenSeq(ClassOf(n)) = <<>> THEN ClassOf(n) ELSE Resolve(ClassOf(n), tab)
MechResult(a, kw, x, tab) == IF a[2] = "to" THEN Pack(Mechanism(a[1], tab), CxFor(a[3], a[4], kw), x) ELSE Unpack(Mechanism(a[1], tab), CxFor(a[3], a[4], kw), x)

Init == /\ defined = <<>>
        /\ gspecs = [dir \in Dirs |-> {}]
        /\ methods = [n \in {} |-> 0]
        /\ dcache = [n \in {} |-> 0]
        /\ codecs = {}
        /\ hist = <<>>
        /\ last = <<"none">>

IsDef(n) == \E i \in DOMAIN defined : defined[i] = n

\* __init_subclass__: compile unpacker then packer; eager => "real", lazy_compilation => "stub".
\* The dialect caches are created in the class's own namespace when its methods are compiled.
Define(n) ==
  /\ ~IsDef(n)
  /\ ParentOf(n) = "#none" \/ IsDef(ParentOf(n))
  /\ defined' = Append(defined, n)
  /\ methods' = [m \in DOMAIN methods \cup {n} |-> IF m = n THEN [dir \in Dirs |-> IF IsLazy(n) THEN "stub" ELSE "real"] ELSE methods[m]]
  /\ dcache' = [m \in DOMAIN dcache \cup {n} |-> IF m = n THEN [dir \in Dirs |-> {}] ELSE dcache[m]]
  /\ gspecs' = IF IsLazy(n) THEN gspecs ELSE [dir \in Dirs |-> InstallSpecs(gspecs[dir], ClassOf(n))]
  /\ hist' = Append(hist, <<"Define", n>>)
  /\ last' = <<"define", n>>
  /\ UNCHANGED codecs

\* the class whose cache dictionary a lookup on class n reaches
CacheOwner(n) == IF CacheMode = "own" \/ ParentOf(n) = "#none" \/ ~IsDef(ParentOf(n)) THEN n ELSE ParentOf(n)

\* Call = CallEnter . (StubCompile . Install)? . (CacheHit | CacheMiss . DialectCompile)? . Return
\* dcache[c][dir] holds pairs <<format the entry was compiled for, dialect>>
Call(n, dir, f, d, kw) ==
  /\ IsDef(n)
  /\ f \in FmtsOf(n)
  /\ d # "none" => HasDialects(n)
  /\ kw \in KwNames /\ (kw # "none" => dir = "to") /\ (kw = "newline" => f = "orjson")
  /\ LET owner == CacheOwner(n)
         hits == { e \in dcache[owner][dir] : e[2] = d /\ (CacheMode = "noformat" \/ e[1] = f) }
         \* the artifact the mechanism ends up invoking
         art == IF d = "none" THEN <<n, dir, f, "none">>
                ELSE IF hits # {}
                     THEN LET e == CHOOSE e \in hits : TRUE IN <<owner, dir, e[1], d>>     \* cache hit: whatever was compiled into that dictionary
                     ELSE <<n, dir, f, d>>                                              \* miss: compile for the receiver and insert
         x == ArgOf(n, dir, f)
         tab == IF methods[n][dir] = "stub" THEN InstallSpecs(gspecs[dir], ClassOf(n)) ELSE gspecs[dir]
     IN /\ methods' = [methods EXCEPT ![n][dir] = "real"]                          \* a stub compiles itself on its first call
        /\ gspecs' = [gspecs EXCEPT ![dir] = tab]
        /\ dcache' = IF d = "none" \/ hits # {} THEN dcache ELSE [dcache EXCEPT ![owner][dir] = @ \cup {<<f, d>>}]
        /\ last' = <<"call", art, MechResult(art, kw, x, tab), Outcome(n, dir, f, d, kw)>>
        /\ hist' = Append(hist, <<"Call", n, dir, d, f, kw>>)
  /\ UNCHANGED <<defined, codecs>>

\* a codec for class n with default_dialect d: d sits at the format-dialect level (lowest)
CodecCx(d) == [DefaultCx EXCEPT !.fmtd = DialectOf(d), !.levels = << GetOpt(DialectOf(d), "strategy", <<>>) >>]
CodecOutcome(n, dir, d) == IF dir = "to" THEN Pack(ClassOf(n), CodecCx(d), ValueOf(n)) ELSE Unpack(ClassOf(n), CodecCx(d), InputOf(n))

\* codecs compile onto fresh holders: nothing a class or another codec owns changes (C15)
CreateCodec(n, dir, d) ==
  /\ Codecs /\ IsDef(n)
  /\ <<n, dir, d>> \notin codecs
  /\ codecs' = codecs \cup {<<n, dir, d>>}
  /\ hist' = Append(hist, <<"CreateCodec", n, dir, d>>)
  /\ last' = <<"codec", n>>
  /\ UNCHANGED <<defined, methods, dcache, gspecs>>
CodecCall(n, dir, d) ==
  /\ Codecs /\ <<n, dir, d>> \in codecs
  /\ hist' = Append(hist, <<"CodecCall", n, dir, d>>)
  /\ last' = <<"codeccall", n>>
  /\ UNCHANGED <<defined, methods, dcache, codecs, gspecs>>

Next == /\ Len(hist) < MaxLen
        /\ \/ \E n \in Names : Define(n)
           \/ \E n \in Names, dir \in Dirs, d \in DNames, f \in {"dict", "msgpack", "orjson"}, kw \in KwNames : Call(n, dir, f, d, kw)
           \/ \E n \in Names, dir \in Dirs, d \in DNames : CreateCodec(n, dir, d)
           \/ \E n \in Names, dir \in Dirs, d \in DNames : CodecCall(n, dir, d)

\* ---- properties -----------------------------------------------------------
\* every completed call returns what a fresh eager family would return (C13 C14)
Faithful == last[1] = "call" => last[3] = last[4]
\* a dialect cache only ever holds artifacts compiled for its own class (implementation level, C13)
CacheOwn == last[1] = "call" => last[2][1] \in Names /\ (CacheMode = "own" => (last[2][1] = hist[Len(hist)][2] /\ last[2][3] = hist[Len(hist)][5]))
\* calling with dialect=D equals the twin whose default dialect is D (C13, on the reference semantics)
IsolationEq ==
  hist = <<>> =>
    \A n \in Names, dir \in Dirs, d \in DNames : (d = "none" \/ HasDialects(n)) =>
       LET x == IF dir = "to" THEN ValueOf(n) ELSE InputOf(n) T2 == Twin(n, d) IN
       Outcome(n, dir, "dict", d, "none") = (IF dir = "to" THEN Pack(T2, DefaultCx, x) ELSE Unpack(T2, DefaultCx, x))
\* creating codecs never changes what a class does (C15): the class-level state is untouched
CodecPure == [][ (\E n \in Names, dir \in Dirs, d \in DNames : CreateCodec(n, dir, d)) => UNCHANGED <<methods, dcache, defined, gspecs>> ]_<<defined, methods, dcache, codecs, gspecs, hist, last>>
\* mixin and codec agree when the codec's default dialect plays the role of the call dialect's lowest level (C15)

\* the expectation tables are printed once (history-free by construction), behaviours at full length
EmitTables ==
  hist = <<>> =>
    /\ \A n \in Names : PrintT(ToJson(<<"class", n, ClassOf(n), ValueOf(n), InputOf(n)>>))
    /\ \A d \in DNames : PrintT(ToJson(<<"dialect", d, DialectOf(d)>>))
    /\ \A n \in Names, dir \in Dirs, d \in DNames :
         /\ \A f \in FmtsOf(n), kw \in KwNames :
              ((d = "none" \/ HasDialects(n)) /\ (kw # "none" => dir = "to") /\ (kw = "newline" => f = "orjson")) =>
                 PrintT(ToJson(<<"call", n, dir, d, Outcome(n, dir, f, d, kw), IF f = "dict" /\ kw = "none" THEN Twin(n, d) ELSE <<>>, f, kw, ArgOf(n, dir, f)>>))
         /\ PrintT(ToJson(<<"codeccall", n, dir, d, CodecOutcome(n, dir, d)>>))
EmitInv == (Len(hist) = MaxLen) => PrintT(ToJson(<<"beh", hist>>))
=============================================================================
