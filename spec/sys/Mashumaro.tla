------------------------------ MODULE Mashumaro ------------------------------
(***************************************************************************)
(* The library as a state machine over the mutable state it keeps between  *)
(* calls (DESIGN.md 3.4):                                                  *)
(*                                                                         *)
(*   defined   classes defined so far (definition order)                   *)
(*   methods   [class -> [dir -> "stub" | "real"]]    lazy stubs vs real   *)
(*   dcache    [class -> [dir -> set of dialect names]] per-class dialect  *)
(*             caches, created in the class's OWN namespace                *)
(*   codecs    set of codec holders created so far (id, dir, dialect)      *)
(*   hist      observable history (what a client of the API saw)           *)
(*   last      the artifact used by the last call (implementation level)   *)
(*                                                                         *)
(* A compiled ARTIFACT is <<class name, dir, dialect name>>: the function   *)
(* computed by the generated program that was compiled for that class and  *)
(* that dialect.  The result of a call is the reference outcome            *)
(* (Pack / Unpack of spec/ref) of the artifact that the dispatch mechanism *)
(* (stub -> compile -> install; cache hit / miss -> compile -> insert)     *)
(* selects.  Faithful: the selected artifact is always the one for the     *)
(* receiver class and the requested dialect, i.e. results never depend on  *)
(* the history (C13 C14 C15).                                              *)
(*                                                                         *)
(* The class family and the dialects are constants of the model (MC_Sys).  *)
(***************************************************************************)
EXTENDS Discr, Json

CONSTANTS ClassOf(_),     \* name -> dataclass term
          ParentOf(_),    \* name -> parent name or "#none"
          Names,          \* class names of the family, base classes first
          DialectOf(_),   \* dialect name -> dialect option list ("none" -> <<>>)
          DNames,         \* dialect names usable in calls (includes "none")
          ValueOf(_),     \* class name -> instance to serialise
          InputOf(_),     \* class name -> input to deserialise
          MaxLen,
          CacheMode,      \* "own" (documented: every class owns its caches) | "inherited" (deviant: found through the parent)
          Codecs          \* TRUE: CreateCodec / CodecCall actions enabled (C15)

VARIABLES defined, methods, dcache, codecs, hist, last

Dirs == {"to", "from"}
IsLazy(n) == GetOpt(DcCfg(ClassOf(n)), "lazy", FALSE)
HasDialects(n) == "dialect_flag" \in Flags(ClassOf(n))

CxFor(d) == [DefaultCx EXCEPT !.dlct = DialectOf(d)]
\* what artifact <<n, dir, d>> computes
ArtifactResult(a, x) == IF a[2] = "to" THEN Pack(ClassOf(a[1]), CxFor(a[3]), x) ELSE Unpack(ClassOf(a[1]), CxFor(a[3]), x)
\* what ANY completed call must return: a function of class, direction, dialect and argument only
Outcome(n, dir, d) == ArtifactResult(<<n, dir, d>>, IF dir = "to" THEN ValueOf(n) ELSE InputOf(n))

\* "an otherwise identical class whose default dialect is D" (C13): D layered over the class's own default dialect
Layer(dn, own) == DialectOf(dn) \o own
\* the twin of a FAMILY: every class reached through classes that enabled dialect support gets the
\* default dialect Layer(D, its own default dialect); a class that did not opt in is left untouched
\* (and shields everything below it), which is the documented forwarding rule for nested classes
RECURSIVE TwinT(_, _)
TwinT(T, d) ==
  CASE T[1] = "dc" ->
         IF "dialect_flag" \notin Flags(T) THEN T
         ELSE LET cfg == DcCfg(T)
                  own == GetOpt(cfg, "dialect", <<>>)
                  rest == SelectSeq(cfg, LAMBDA o : o[1] # "dialect")
                  base(o) == IF o[1] = "bases" THEN <<"bases", [k \in DOMAIN o[2] |-> TwinT(o[2][k], d)]>> ELSE o
              IN  <<"dc", T[2], [i \in DOMAIN T[3] |-> <<T[3][i][1], TwinT(T[3][i][2], d), T[3][i][3], T[3][i][4]>>],
                    [i \in DOMAIN rest |-> base(rest[i])] \o << <<"dialect", Layer(d, own)>> >> >>
    [] T[1] \in {"list", "opt", "set", "deque", "vtuple", "seq", "frozenset"} -> <<T[1], TwinT(T[2], d)>>
    [] T[1] \in {"dict", "mapping", "odict"} -> <<T[1], T[2], TwinT(T[3], d)>>
    [] T[1] \in {"tuple", "union"} -> <<T[1], [i \in DOMAIN T[2] |-> TwinT(T[2][i], d)]>>
    [] OTHER -> T
Twin(n, d) == IF d = "none" THEN ClassOf(n) ELSE TwinT(ClassOf(n), d)

Init == /\ defined = <<>>
        /\ methods = [n \in {} |-> 0]
        /\ dcache = [n \in {} |-> 0]
        /\ codecs = {}
        /\ hist = <<>>
        /\ last = <<"none">>

IsDef(n) == \E i \in DOMAIN defined : defined[i] = n

\* __init_subclass__: compile unpacker then packer; eager => "real", lazy_compilation => "stub".
\* The dialect caches are created in the class's own namespace when its methods are compiled.
Define(n) ==
  /\ ~IsDef(n)
  /\ ParentOf(n) = "#none" \/ IsDef(ParentOf(n))
  /\ defined' = Append(defined, n)
  /\ methods' = [m \in DOMAIN methods \cup {n} |-> IF m = n THEN [dir \in Dirs |-> IF IsLazy(n) THEN "stub" ELSE "real"] ELSE methods[m]]
  /\ dcache' = [m \in DOMAIN dcache \cup {n} |-> IF m = n THEN [dir \in Dirs |-> {}] ELSE dcache[m]]
  /\ hist' = Append(hist, <<"Define", n>>)
  /\ last' = <<"define", n>>
  /\ UNCHANGED codecs

\* the class whose cache dictionary a lookup on class n reaches
CacheOwner(n) == IF CacheMode = "own" \/ ParentOf(n) = "#none" \/ ~IsDef(ParentOf(n)) THEN n ELSE ParentOf(n)

\* Call = CallEnter . (StubCompile . Install)? . (CacheHit | CacheMiss . DialectCompile)? . Return
Call(n, dir, d) ==
  /\ IsDef(n)
  /\ d # "none" => HasDialects(n)
  /\ LET owner == CacheOwner(n)
         \* the artifact the mechanism ends up invoking
         art == IF d = "none" THEN <<n, dir, "none">>
                ELSE IF d \in dcache[owner][dir]
                     THEN <<owner, dir, d>>            \* cache hit: whatever was compiled into that dictionary
                     ELSE <<n, dir, d>>                \* miss: compile for the receiver and insert
         x == IF dir = "to" THEN ValueOf(n) ELSE InputOf(n)
     IN /\ methods' = [methods EXCEPT ![n][dir] = "real"]                          \* a stub compiles itself on its first call
        /\ dcache' = IF d = "none" THEN dcache ELSE [dcache EXCEPT ![owner][dir] = @ \cup {d}]
        /\ last' = <<"call", art, ArtifactResult(art, x), Outcome(n, dir, d)>>
        /\ hist' = Append(hist, <<"Call", n, dir, d>>)
  /\ UNCHANGED <<defined, codecs>>

\* a codec for class n with default_dialect d: d sits at the format-dialect level (lowest)
CodecCx(d) == [DefaultCx EXCEPT !.fmtd = DialectOf(d), !.levels = << GetOpt(DialectOf(d), "strategy", <<>>) >>]
CodecOutcome(n, dir, d) == IF dir = "to" THEN Pack(ClassOf(n), CodecCx(d), ValueOf(n)) ELSE Unpack(ClassOf(n), CodecCx(d), InputOf(n))

\* codecs compile onto fresh holders: nothing a class or another codec owns changes (C15)
CreateCodec(n, dir, d) ==
  /\ Codecs /\ IsDef(n)
  /\ <<n, dir, d>> \notin codecs
  /\ codecs' = codecs \cup {<<n, dir, d>>}
  /\ hist' = Append(hist, <<"CreateCodec", n, dir, d>>)
  /\ last' = <<"codec", n>>
  /\ UNCHANGED <<defined, methods, dcache>>
CodecCall(n, dir, d) ==
  /\ Codecs /\ <<n, dir, d>> \in codecs
  /\ hist' = Append(hist, <<"CodecCall", n, dir, d>>)
  /\ last' = <<"codeccall", n>>
  /\ UNCHANGED <<defined, methods, dcache, codecs>>

Next == /\ Len(hist) < MaxLen
        /\ \/ \E n \in Names : Define(n)
           \/ \E n \in Names, dir \in Dirs, d \in DNames : Call(n, dir, d)
           \/ \E n \in Names, dir \in Dirs, d \in DNames : CreateCodec(n, dir, d)
           \/ \E n \in Names, dir \in Dirs, d \in DNames : CodecCall(n, dir, d)

\* ---- properties -----------------------------------------------------------
\* every completed call returns what a fresh eager family would return (C13 C14)
Faithful == last[1] = "call" => last[3] = last[4]
\* a dialect cache only ever holds artifacts compiled for its own class (implementation level, C13)
CacheOwn == last[1] = "call" => last[2][1] \in Names /\ (CacheMode = "own" => last[2][1] = hist[Len(hist)][2])
\* calling with dialect=D equals the twin whose default dialect is D (C13, on the reference semantics)
IsolationEq ==
  hist = <<>> =>
    \A n \in Names, dir \in Dirs, d \in DNames : (d = "none" \/ HasDialects(n)) =>
       LET x == IF dir = "to" THEN ValueOf(n) ELSE InputOf(n) T2 == Twin(n, d) IN
       Outcome(n, dir, d) = (IF dir = "to" THEN Pack(T2, DefaultCx, x) ELSE Unpack(T2, DefaultCx, x))
\* creating codecs never changes what a class does (C15): the class-level state is untouched
CodecPure == [][ (\E n \in Names, dir \in Dirs, d \in DNames : CreateCodec(n, dir, d)) => UNCHANGED <<methods, dcache, defined>> ]_<<defined, methods, dcache, codecs, hist, last>>
\* mixin and codec agree when the codec's default dialect plays the role of the call dialect's lowest level (C15)

\* the expectation tables are printed once (history-free by construction), behaviours at full length
EmitTables ==
  hist = <<>> =>
    /\ \A n \in Names : PrintT(ToJson(<<"class", n, ClassOf(n), ValueOf(n), InputOf(n)>>))
    /\ \A d \in DNames : PrintT(ToJson(<<"dialect", d, DialectOf(d)>>))
    /\ \A n \in Names, dir \in Dirs, d \in DNames :
         /\ (d = "none" \/ HasDialects(n)) => PrintT(ToJson(<<"call", n, dir, d, Outcome(n, dir, d), Twin(n, d)>>))
         /\ PrintT(ToJson(<<"codeccall", n, dir, d, CodecOutcome(n, dir, d)>>))
EmitInv == (Len(hist) = MaxLen) => PrintT(ToJson(<<"beh", hist>>))
=============================================================================
