--------------------------------- MODULE Nsp ---------------------------------
(***************************************************************************)
(* C17: the namespaces into which generated source is exec'd.              *)
(*   nsp[u]   global namespace of generated unit u: name -> object id      *)
(* EnsureObject(u, name, obj) registers obj under name; a generated        *)
(* function then refers to obj BY THAT NAME.                                *)
(*   Closed           every global name a generated function loads         *)
(*                    resolves (unit namespace, builtins, attribute chain) *)
(*   BoundByIdentity  every such name denotes the very object intended     *)
(* Mode "fresh": every object gets a name of its own (what the property    *)
(* needs); Mode "firstwins": dict.setdefault(name, obj) -- the first       *)
(* object registered under a name keeps it.                                *)
(***************************************************************************)
EXTENDS Naturals, Sequences, FiniteSets, TLC

CONSTANTS Units, Objects, NameOf(_), Mode, MaxRefs
VARIABLES nsp, refs      \* refs: set of <<unit, name, intended object>> emitted into generated code

NameFor(o) == IF Mode = "fresh" THEN <<NameOf(o), o>> ELSE <<NameOf(o), "shared">>

Init == nsp = [u \in Units |-> [n \in {} |-> 0]] /\ refs = {}

EnsureObject(u, o) ==
  LET n == NameFor(o) IN
  /\ Cardinality(refs) < MaxRefs
  /\ nsp' = [nsp EXCEPT ![u] = IF n \in DOMAIN nsp[u] THEN nsp[u] ELSE [m \in DOMAIN nsp[u] \cup {n} |-> IF m = n THEN o ELSE nsp[u][m]]]
  /\ refs' = refs \cup {<<u, n, o>>}

Next == \E u \in Units, o \in Objects : EnsureObject(u, o)

Closed == \A r \in refs : r[2] \in DOMAIN nsp[r[1]]
BoundByIdentity == \A r \in refs : r[2] \in DOMAIN nsp[r[1]] => nsp[r[1]][r[2]] = r[3]
=============================================================================
