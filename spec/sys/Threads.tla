------------------------------- MODULE Threads -------------------------------
(***************************************************************************)
(* C14, "not on how many threads make the first call at once": micro-step  *)
(* refinement of Call for a lazily compiled method.  A thread's first call *)
(* runs through SEGMENTS delimited by the points the forced-schedule       *)
(* harness can park a thread at:                                           *)
(*   start       -> Enter      reads the method slot                       *)
(*   in_stub     -> Build      (call of add_*_method) compile + exec +     *)
(*                             setattr: installs the real method           *)
(*   installed   -> Redispatch (return of add_*_method) calls the slot again*)
(* Install = "replace": the slot always holds a callable (what the builder *)
(* does: setattr over the stub).  Install = "delete-then-set" is the        *)
(* deviant in which the stub is removed before the replacement is there.   *)
(***************************************************************************)
EXTENDS Naturals, Sequences, FiniteSets, TLC, Json

CONSTANTS Thr, Install
VARIABLES slot, pc, res, hist

Init == slot = "stub" /\ pc = [t \in Thr |-> "start"] /\ res = [t \in Thr |-> "none"] /\ hist = <<>>

Enter(t) == /\ pc[t] = "start"
            /\ IF slot = "real" THEN pc' = [pc EXCEPT ![t] = "done"] /\ res' = [res EXCEPT ![t] = "outcome"]
               ELSE IF slot = "stub" THEN pc' = [pc EXCEPT ![t] = "in_stub"] /\ res' = res
               ELSE pc' = [pc EXCEPT ![t] = "done"] /\ res' = [res EXCEPT ![t] = "AttributeError"]     \* slot = "missing"
            /\ UNCHANGED slot /\ hist' = Append(hist, t)
\* between the two points the builder compiles and installs; with "delete-then-set" the slot is empty in between
BuildA(t) == /\ pc[t] = "in_stub" /\ Install = "delete-then-set"
             /\ slot' = "missing" /\ pc' = [pc EXCEPT ![t] = "deleted"] /\ UNCHANGED res /\ hist' = Append(hist, t)
BuildB(t) == /\ pc[t] = "deleted"
             /\ slot' = "real" /\ pc' = [pc EXCEPT ![t] = "installed"] /\ UNCHANGED res /\ hist' = Append(hist, t)
Build(t) == /\ pc[t] = "in_stub" /\ Install = "replace"
            /\ slot' = "real" /\ pc' = [pc EXCEPT ![t] = "installed"] /\ UNCHANGED res /\ hist' = Append(hist, t)
Redispatch(t) == /\ pc[t] = "installed"
                 /\ pc' = [pc EXCEPT ![t] = "done"]
                 /\ res' = [res EXCEPT ![t] = IF slot = "real" THEN "outcome" ELSE IF slot = "stub" THEN "recursion" ELSE "AttributeError"]
                 /\ UNCHANGED slot /\ hist' = Append(hist, t)

Next == \E t \in Thr : Enter(t) \/ Build(t) \/ BuildA(t) \/ BuildB(t) \/ Redispatch(t)

\* every completed call returns the outcome of the eager twin, whatever the interleaving
Faithful == \A t \in Thr : pc[t] = "done" => res[t] = "outcome"
\* the first call never re-enters a stub
NoStubToStub == \A t \in Thr : pc[t] = "installed" => slot = "real"
AllDone == \A t \in Thr : pc[t] = "done"
EmitInv == AllDone => PrintT(ToJson(<<"schedule", hist>>))
=============================================================================
