----------------------------- MODULE SchemaCtx -----------------------------
(***************************************************************************)
(* C20 (and the reference half of C06): the JSON Schema builder as a state *)
(* machine over the definitions collected in ONE builder context.          *)
(*                                                                         *)
(*   defs      name of a collected dataclass |-> the set of references     *)
(*             emitted INSIDE its definition                               *)
(*   Build(T)  JSONSchemaBuilder.build(T): walks T in declaration order;   *)
(*             in reference mode every dataclass met is collected into     *)
(*             defs and replaced by a reference  <prefix>/<name>, in       *)
(*             inline mode nothing is collected and nothing is referenced  *)
(*   OneShot   build_json_schema(T, ..., with_definitions) on a fresh      *)
(*             context                                                     *)
(*                                                                         *)
(* A reference is the pair <<prefix text, definition name>> (the recorder  *)
(* splits a real "$ref" at its last "/").  README "JSON Schema":           *)
(* all_refs defaults to the dialect's (False for Draft 2020-12, True for   *)
(* OpenAPI 3.1); ref_prefix defaults to the dialect's definitions pointer  *)
(* and a trailing "/" is dropped; the builder accumulates definitions over *)
(* successive builds.                                                      *)
(*                                                                         *)
(* Mode = "documented" is the reference.  Mode = "fastpath" is a DEVIANT   *)
(* mechanism (a dataclass that is already collected is referenced through  *)
(* the dialect's default pointer without being walked again): TLC refutes  *)
(* PrefixRespected for it, which shows that the property is sensitive to   *)
(* the ORDER in which dataclasses are met within one context.              *)
(***************************************************************************)
EXTENDS Terms

CONSTANTS Dialect,    \* "draft" | "openapi"
          AllRefs,    \* "unset" | "yes" | "no"
          Prefix,     \* "unset" | the configured prefix text
          Mode        \* "documented" | "fastpath"

RootPointer == IF Dialect = "draft" THEN "#/$defs" ELSE "#/components/schemas"
RefMode == IF AllRefs = "unset" THEN Dialect = "openapi" ELSE AllRefs = "yes"
\* str.rstrip("/") on the model's finite alphabet of prefixes
Strip(p) == CASE p = "#/x/" -> "#/x" [] p = "#/components/responses//" -> "#/components/responses" [] OTHER -> p
EffPrefix == IF Prefix = "unset" THEN RootPointer ELSE Strip(Prefix)

\* immediate component types of a type term, in declaration order
Kids(T) ==
  CASE T[1] = "dc" -> [i \in DOMAIN T[3] |-> T[3][i][2]]
    [] T[1] \in {"list", "deque", "seq", "mseq", "vtuple", "opt", "set", "frozenset", "final"} -> <<T[2]>>
    [] T[1] \in {"dict", "odict", "mapping"} -> <<T[2], T[3]>>
    [] T[1] \in {"tuple", "union"} -> T[2]
    [] T[1] = "newtype" -> <<T[3]>>
    [] OTHER -> <<>>

\* the settings ONE call runs with: the builder's own (Cfg0), or -- for build_json_schema(T, context=builder.context, <keyword>) --
\* the builder's with the keyword applied TO THAT CALL ONLY (the caller's context object keeps its settings; only the
\* definitions mapping is shared with it)
Cfg0 == [refmode |-> RefMode, prefix |-> EffPrefix]
OvCfg(ov) == CASE ov = "inline" -> [Cfg0 EXCEPT !.refmode = FALSE]          \* all_refs=False
               [] ov = "refs"   -> [Cfg0 EXCEPT !.refmode = TRUE]           \* all_refs=True
               [] ov = "prefix" -> [Cfg0 EXCEPT !.prefix = "#/y"]           \* ref_prefix="#/y/"
               [] OTHER -> Cfg0

\* walk state: [defs |-> collected definitions, out |-> references emitted into the schema under construction]
RECURSIVE VisitC(_, _, _)
RECURSIVE VisitSeqC(_, _, _)
VisitSeqC(ts, st, c) == IF ts = <<>> THEN st ELSE VisitSeqC(Tail(ts), VisitC(Head(ts), st, c), c)
VisitC(T, st, c) ==
  IF T[1] = "dc" /\ c.refmode
  THEN IF Mode = "fastpath" /\ T[2] \in DOMAIN st.defs
       THEN [defs |-> st.defs, out |-> st.out \cup { <<RootPointer, T[2]>> }]
       ELSE LET inner == VisitSeqC(Kids(T), [defs |-> st.defs, out |-> {}], c) IN
            [defs |-> (T[2] :> inner.out) @@ inner.defs, out |-> st.out \cup { <<c.prefix, T[2]>> }]
  ELSE VisitSeqC(Kids(T), st, c)
Visit(T, st) == VisitC(T, st, Cfg0)

Fresh == [defs |-> <<>>, out |-> {}]
RefsIn(st) == st.out \cup UNION { st.defs[n] : n \in DOMAIN st.defs }
\* the dataclasses reachable from T
RECURSIVE Reach(_)
Reach(T) == (IF T[1] = "dc" THEN {T[2]} ELSE {}) \cup UNION { Reach(Kids(T)[i]) : i \in DOMAIN Kids(T) }
=============================================================================
