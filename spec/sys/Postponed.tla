------------------------------ MODULE Postponed ------------------------------
(***************************************************************************)
(* C14, "compilation timing": POSTPONED EVALUATION as a state machine.     *)
(*                                                                         *)
(* A class whose annotations name a class that does not exist yet cannot   *)
(* be compiled when it is defined: its methods are stubs that compile the  *)
(* real method at the first call (README: forward references / postponed   *)
(* evaluation).  The family:                                               *)
(*   Later(d: date)                          defined at SOME point         *)
(*   Inner(k: int, later: Optional["Later"] = None)   plain or mixin       *)
(*   Parent(n: int, inner: Optional[Inner] = None)    eager or lazy        *)
(* Inner and Parent exist from the start; the state is                     *)
(*   later   Later is defined                                              *)
(*   pm      Parent's method slot   "stub" | "real"                        *)
(*   im      Inner's method slot    "none" (a plain class before anybody   *)
(*           compiled it) | "stub" | "real"                                *)
(* A compilation of Parent (at definition when eager, from its stub when   *)
(* lazy) compiles the nested Inner ON DEMAND if it has no method yet; the  *)
(* nested class may postpone ITSELF exactly as it could under an eagerly   *)
(* compiled parent (Mech = "documented").  Mech = "strict" is the deviant  *)
(* in which a parent compiled from its stub forbids that: TLC refutes      *)
(* Faithful for it.                                                        *)
(* Results are the reference outcomes (Pack / Unpack on the family's       *)
(* meaning); Faithful: every completed call returns the history-free       *)
(* outcome -- values that hold no Inner never need Later.                  *)
(***************************************************************************)
EXTENDS Unpack, Json, SequencesExt

CONSTANTS ParentMode,   \* "eager" | "lazy"
          InnerKind,    \* "plain" | "mixin"
          Mech,         \* "documented" | "strict"
          MaxLen
VARIABLES later, pm, im, hist, last

MixOpt(k) == IF k = "plain" THEN << <<"mixin", "plain">> >> ELSE <<>>
LaterT == <<"dc", "Later", << <<"d", <<"date">>, <<"req">>, <<>> >> >>, <<>> >>
InnerT == <<"dc", "Inner", << <<"k", <<"int">>, <<"req">>, <<>> >>,
                              <<"later", <<"opt", <<"fwd", "Later", LaterT>> >>, <<"val", None>>, <<>> >> >>, MixOpt(InnerKind)>>
ParentT == <<"dc", "Parent", << <<"n", <<"int">>, <<"req">>, <<>> >>, <<"inner", <<"opt", InnerT>>, <<"val", None>>, <<>> >> >>,
             IF ParentMode = "lazy" THEN << <<"lazy", TRUE>> >> ELSE <<>> >>

NoneV == <<"obj", "Parent", <<I(1), None>> >>
FullV == <<"obj", "Parent", <<I(3), <<"obj", "Inner", <<I(4), <<"obj", "Later", << <<"date", 2024, 2, 28>> >> >> >> >> >> >>
HalfV == <<"obj", "Parent", <<I(5), <<"obj", "Inner", <<I(6), None>> >> >> >>          \* an Inner whose own Optional field is None
Ops == {"none.to", "none.from", "half.to", "half.from", "full.to", "full.from"}
ValueOf(op) == CASE op \in {"none.to", "none.from"} -> NoneV [] op \in {"half.to", "half.from"} -> HalfV [] OTHER -> FullV
Wire(op) == Pack(ParentT, DefaultCx, ValueOf(op))
Outcome(op) == IF op \in {"none.to", "half.to", "full.to"} THEN Wire(op) ELSE Unpack(ParentT, DefaultCx, Wire(op))
ArgOf(op) == IF op \in {"none.to", "half.to", "full.to"} THEN ValueOf(op) ELSE Wire(op)
UsesInner(op) == op \notin {"none.to", "none.from"}

\* compiling Parent: the nested Inner gets a method if it has none -- real if its annotations resolve, else a stub of its own
\* (result "#fail" = UnresolvedTypeReferenceError escapes from the parent's compilation)
NestedAfter(fromStub) ==
  IF im # "none" THEN im
  ELSE IF later THEN "real"
  ELSE IF Mech = "documented" \/ ~fromStub THEN "stub" ELSE "#fail"

InitIm == IF InnerKind = "mixin" THEN "stub" ELSE "none"          \* a mixin Inner postponed itself at its own definition
Init == /\ later = FALSE
        /\ pm = (IF ParentMode = "eager" THEN "real" ELSE "stub")
        /\ im = (IF ParentMode = "eager" /\ InitIm = "none" THEN "stub" ELSE InitIm)    \* eager: Parent compiled at definition, Inner postponed
        /\ hist = <<>> /\ last = <<"none">>

DefineLater == /\ ~later /\ later' = TRUE /\ UNCHANGED <<pm, im>>
               /\ hist' = Append(hist, <<"DefineLater">>) /\ last' = <<"define">>

\* a value holding an Inner whose "later" is an instance of Later can only be built once Later exists
Call(op) ==
  /\ (op \in {"full.to", "full.from"}) => later
  /\ LET im1 == IF pm = "stub" THEN NestedAfter(TRUE) ELSE im IN
     IF im1 = "#fail"
     THEN /\ UNCHANGED <<later, pm, im>>
          /\ last' = <<"call", op, <<"err", <<"Unresolved">> >>, Outcome(op)>>
          /\ hist' = Append(hist, <<"Call", op, ArgOf(op), Outcome(op)>>)
     ELSE \* executing: an Inner instance met by the call runs Inner's method; a stub compiles itself -- which needs Later
          LET needInner == UsesInner(op)
              im2 == IF needInner /\ im1 = "stub" THEN (IF later THEN "real" ELSE "#fail") ELSE im1 IN
          IF im2 = "#fail"
          THEN /\ pm' = "real" /\ im' = im1 /\ UNCHANGED later
               /\ last' = <<"call", op, <<"err", <<"Unresolved">> >>, <<"err", <<"Unresolved">> >> >>       \* documented: Later is really needed
               /\ hist' = Append(hist, <<"Call", op, ArgOf(op), <<"err", <<"Unresolved">> >> >>)
          ELSE /\ pm' = "real" /\ im' = im2 /\ UNCHANGED later
               /\ last' = <<"call", op, Outcome(op), Outcome(op)>>
               /\ hist' = Append(hist, <<"Call", op, ArgOf(op), Outcome(op)>>)

Next == /\ Len(hist) < MaxLen
        /\ DefineLater \/ \E op \in Ops : Call(op)

\* every completed call returns what the history-free reference prescribes for it
Faithful == last[1] = "call" => last[3] = last[4]
\* a compiled method is never replaced by a stub again
NoRealToStub == [][(pm = "real" => pm' = "real") /\ (im = "real" => im' = "real")]_<<later, pm, im, hist, last>>
EmitInv == (Len(hist) = MaxLen) => PrintT(ToJson(<<"beh", ParentT, InnerT, LaterT, hist>>))
View == <<later, pm, im, hist>>
=============================================================================
