-------------------------------- MODULE Discr --------------------------------
(***************************************************************************)
(* Discriminated unions (README "Discriminator", DESIGN.md App. A.5, C12). *)
(* Eligibility is evaluated AT THE TIME OF THE CALL over the classes        *)
(* defined so far (a sequence of dataclass terms in definition order).     *)
(*   class term cfg options used here:                                     *)
(*     <<"bases", <<parent term>>>>    <<"classvars", << <<"type", tag>> >>>> *)
(*   discriminator options: << <<"field", f>>, <<"include_subtypes", b>>,   *)
(*                             <<"include_supertypes", b>> >>               *)
(***************************************************************************)
EXTENDS Unpack

ParentName(C) == LET b == GetOpt(DcCfg(C), "bases", <<>>) IN IF b = <<>> THEN "#none" ELSE b[1][2]
ByName(defined, n) == defined[CHOOSE i \in DOMAIN defined : defined[i][2] = n]
IsDefined(defined, n) == \E i \in DOMAIN defined : defined[i][2] = n

RECURSIVE IsSubOf(_, _, _)
\* C is a proper (transitive) subclass of the class named base
IsSubOf(defined, C, base) ==
  LET p == ParentName(C) IN
  IF p = "#none" THEN FALSE ELSE p = base \/ (IsDefined(defined, p) /\ IsSubOf(defined, ByName(defined, p), base))

\* the tag a class carries: the value bound to the field name IN ITS OWN NAMESPACE
OwnTag(C, field) == LET cv == GetOpt(DcCfg(C), "classvars", <<>>) IN
                    IF PairsHas(cv, field) THEN PairsGet(cv, field) ELSE <<"#notag">>

\* the tags under which a class answers at a discriminated position: its own tag -- or, with a variant_tagger_fn, whatever the
\* function returns for the class (one tag, or a LIST of tags).  The model's two functions: "one" = "t_" + class name,
\* "two" = ["t_" + class name, "u_" + class name]; they need no class variable, so every eligible class carries tags
TagsOf(C, opts) ==
  LET tg == GetOpt(opts, "tagger", "none") f == GetOpt(opts, "field", "#nofield") IN
  IF tg = "one" THEN { <<"str", "t_" \o C[2]>> }
  ELSE IF tg = "two" THEN { <<"str", "t_" \o C[2]>>, <<"str", "u_" \o C[2]>> }
  ELSE IF OwnTag(C, f) = <<"#notag">> THEN {} ELSE { OwnTag(C, f) }

\* depth-first pre-order over the subclass tree, children in definition order (cls.__subclasses__())
RECURSIVE SubsDFS(_, _)
SubsDFS(defined, base) ==
  LET kids == SelectSeq(defined, LAMBDA C : ParentName(C) = base) IN
  LET RECURSIVE go(_)
      go(ks) == IF ks = <<>> THEN <<>> ELSE <<ks[1]>> \o SubsDFS(defined, ks[1][2]) \o go(Tail(ks))
  IN go(kids)

Eligible(defined, Base, opts) ==
  (IF GetOpt(opts, "include_subtypes", FALSE) THEN SubsDFS(defined, Base[2]) ELSE <<>>)
  \o (IF GetOpt(opts, "include_supertypes", FALSE) THEN <<Base>> ELSE <<>>)

\* the class (if any) the input must be deserialized as, with a discriminator field
\* result: Ok(instance) | Err(<<"MissingDiscr", f>>) | Err(<<"NoVariant">>) | Err(...)
\* A chosen variant that declares a class-level discriminator OF ITS OWN (its own Config, another field) dispatches again
\* among ITS subclasses: the inner level's outcome -- the instance, or ITS MissingDiscr / NoVariant -- is the outcome
RECURSIVE UnpackTagged(_, _, _, _, _)
FromDictD(defined, C, cx, j) ==
  IF HasOpt(DcCfg(C), "discriminator") THEN UnpackTagged(defined, C, GetOpt(DcCfg(C), "discriminator", <<>>), cx, j)
  ELSE FromDict(C, cx, j)
UnpackTagged(defined, Base, opts, cx, j) ==
  LET f == GetOpt(opts, "field", "#nofield")
      el == Eligible(defined, Base, opts) IN
  IF j[1] # "dict" THEN Err(<<"ValueError">>)
  ELSE IF ~PairsHas(j[2], S(f)) THEN Err(<<"MissingDiscr", f>>)
  ELSE LET t == PairsGet(j[2], S(f))
           hits == { i \in DOMAIN el : t \in TagsOf(el[i], opts) } IN
       IF hits = {} THEN Err(<<"NoVariant">>)
       ELSE LET C == el[CHOOSE i \in hits : \A k \in hits : k <= i] IN      \* later registration overwrites
            FromDictD(defined, C, cx, j)

\* without a field: the eligible classes that accept the input, in trial order
Acceptors(defined, Base, opts, cx, j) ==
  SelectSeq(Eligible(defined, Base, opts), LAMBDA C : IsOk(FromDict(C, cx, j)))
UnpackUntagged(defined, Base, opts, cx, j) ==
  LET acc == Acceptors(defined, Base, opts, cx, j) IN
  IF acc = <<>> THEN Err(<<"NoVariant">>) ELSE FromDict(acc[1], cx, j)

UnpackDiscr(defined, Base, opts, cx, j) ==
  IF HasOpt(opts, "field") THEN UnpackTagged(defined, Base, opts, cx, j) ELSE UnpackUntagged(defined, Base, opts, cx, j)

\* tags a lazily filled registry may legitimately hold
EligibleTags(defined, Base, opts) ==
  LET el == Eligible(defined, Base, opts) f == GetOpt(opts, "field", "#nofield") IN
  UNION { TagsOf(el[i], opts) : i \in DOMAIN el }
=============================================================================
