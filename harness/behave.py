"""Replays TLC-generated BEHAVIOURS (histories of a state-machine spec) against the real library.
Each behaviour runs in a fresh Registry (fresh classes => histories do not leak)."""
from __future__ import annotations

import multiprocessing as mp

from harness.core import norm_err
from harness.terms import jkey, terms_equal


def _run_c12(job):
    site, root, holder, dopts, beh = job
    from harness.real import BasicDecoder, Subject, abstract_exception
    from harness.terms import Registry, abstract_value, concretize_type, concretize_value
    reg = Registry()
    out = {"events": 0, "mism": [], "drift": []}
    try:
        rootcls = concretize_type(root, reg)
        lazy_holder = '"shared"' in __import__("json").dumps(dopts)      # shared Discriminator object: the holder is compiled at its first use
        holdercls = concretize_type(holder, reg) if site in ("field", "pair", "fieldopt", "fieldlist") and not lazy_holder else None
        decoder = None
        for idx, ev in enumerate(beh):
            out["events"] += 1
            if ev[0] == "Define":
                concretize_type(ev[1], reg)
            elif ev[0] == "CreateDecoder":
                decoder = BasicDecoder(concretize_type(["discr", root, dopts], reg))
            elif ev[0] == "Deserialize":
                j, exp, acceptable = ev[1], norm_err(ev[2]), ev[3]
                d = concretize_value(j, reg)
                try:
                    if site == "config":
                        res = ["ok", abstract_value(rootcls.from_dict(d), reg)]
                    elif site in ("field", "pair", "fieldopt", "fieldlist"):
                        if holdercls is None:
                            holdercls = concretize_type(holder, reg)
                        res = ["ok", abstract_value(holdercls.from_dict({"f": [d] if site == "fieldlist" else d}), reg)]
                    else:
                        res = ["ok", abstract_value(decoder.decode(d), reg)]
                except Exception as e:  # noqa: BLE001
                    res = norm_err(abstract_exception(e, reg))
                if site == "field" and exp[0] == "err" and exp[1][0] == "Invalid":
                    # the holder reports the outer field with the value it was given
                    pass
                ok = terms_equal(res, exp)
                if not ok and acceptable and res[0] == "ok":
                    o = res[1][2][0] if site in ("field", "fieldopt") else (res[1][2][0][1][0] if site == "fieldlist" else res[1])
                    ok = o[0] == "obj" and o[1] in acceptable
                if not ok:
                    out["mism"].append({"clause": "variant-choice", "step": idx, "history": beh[: idx + 1], "input": j,
                                        "expected": exp, "actual": res, "site": site, "root": root, "holder": holder, "dopts": dopts})
                    break
    finally:
        reg.close()
    return out


def replay_c12(site, root, holder, dopts, behaviours, procs=16):
    jobs = [(site, root, holder, dopts, b) for b in behaviours]
    agg = {"events": 0, "mism": [], "behaviours": len(jobs)}
    ctx = mp.get_context("fork")
    with ctx.Pool(procs) as pool:
        for out in pool.imap_unordered(_run_c12, jobs, chunksize=64):
            agg["events"] += out["events"]
            agg["mism"].extend(out["mism"])
    return agg


# ------------------------------------------------------------------ sys/Mashumaro.tla behaviours (C13 C14 C15)
class SysTables:
    def __init__(self, printed):
        self.classes = {}
        self.values = {}
        self.inputs = {}
        self.dialects = {}
        self.calls = {}
        self.args = {}
        self.twins = {}
        self.codeccalls = {}
        self.behaviours = []
        for p in printed:
            if p[0] == "class":
                self.classes[p[1]] = p[2]
                self.values[p[1]] = p[3]
                self.inputs[p[1]] = p[4]
            elif p[0] == "dialect":
                self.dialects[p[1]] = p[2]
            elif p[0] == "call":
                key = (p[1], p[2], p[3], p[6], p[7])
                self.calls[key] = norm_err(p[4]) if p[2] == "from" else p[4]
                self.args[key] = p[8]
                if p[5]:
                    self.twins[key] = p[5]
            elif p[0] == "codeccall":
                self.codeccalls[(p[1], p[2], p[3])] = norm_err(p[4]) if p[2] == "from" else p[4]
            elif p[0] == "beh":
                self.behaviours.append(p[1])


class World:
    """one fresh universe of classes / dialects / codecs in which a behaviour is executed"""

    def __init__(self, tables: SysTables):
        from harness.terms import Registry
        self.t = tables
        self.reg = Registry()
        self.dialect_cls = {}
        self.codecs = {}

    def dialect(self, name):
        if name == "none":
            return None
        if name not in self.dialect_cls:
            from harness.classes import build_dialect
            self.dialect_cls[name] = build_dialect(self.t.dialects[name], self.reg)
        return self.dialect_cls[name]

    def define(self, n):
        from harness.terms import concretize_type
        return concretize_type(self.t.classes[n], self.reg)

    def call(self, n, direction, d, f="dict", kw="none"):
        """-> observed result term: wire/document term for 'to' (format documents are parsed with the format's own library;
        with kw == 'newline' the term is ["nl", doc, raw ends with newline]), ["ok", value] | ["err", ..] for 'from'"""
        from harness.real import abstract_exception
        from harness.terms import abstract_value, concretize_value
        cls = self.reg.by_name[n]
        kwargs = {} if d == "none" else {"dialect": self.dialect(d)}
        if kw == "omit_none":
            kwargs["omit_none"] = True
        elif kw == "by_alias":
            kwargs["by_alias"] = True
        try:
            if direction == "to":
                x = concretize_value(self.t.values[n], self.reg)
                if f == "dict":
                    return abstract_value(x.to_dict(**kwargs), self.reg)
                if f == "msgpack":
                    import msgpack
                    return abstract_value(msgpack.unpackb(x.to_msgpack(**kwargs), raw=False), self.reg)
                if f == "orjson":
                    import orjson
                    if kw == "newline":
                        kwargs["orjson_options"] = orjson.OPT_APPEND_NEWLINE
                    raw = x.to_jsonb(**kwargs)
                    doc = abstract_value(orjson.loads(raw), self.reg)
                    return ["nl", doc, raw.endswith(b"\n")] if kw == "newline" else doc
                raise ValueError(f)
            arg = concretize_value(self.t.args[(n, direction, d, f, kw)], self.reg)
            if f == "dict":
                return ["ok", abstract_value(cls.from_dict(arg, **kwargs), self.reg)]
            if f == "msgpack":
                import msgpack
                return ["ok", abstract_value(cls.from_msgpack(msgpack.packb(arg, use_bin_type=True), **kwargs), self.reg)]
            if f == "orjson":
                import orjson
                return ["ok", abstract_value(cls.from_json(orjson.dumps(arg), **kwargs), self.reg)]
            raise ValueError(f)
        except RecursionError:
            return ["err", ["other", "RecursionError", ""]]
        except Exception as e:  # noqa: BLE001
            return norm_err(abstract_exception(e, self.reg))

    def create_codec(self, n, direction, d):
        from harness.real import BasicDecoder, BasicEncoder
        cls = self.reg.by_name[n]
        before = sorted(k for k in vars(cls) if "mashumaro" in k or "dialect" in k)
        self.codecs[(n, direction, d)] = (BasicEncoder if direction == "to" else BasicDecoder)(cls, default_dialect=self.dialect(d))
        after = sorted(k for k in vars(cls) if "mashumaro" in k or "dialect" in k)
        return before == after

    def codec_call(self, n, direction, d):
        from harness.real import abstract_exception
        from harness.terms import abstract_value, concretize_value
        c = self.codecs[(n, direction, d)]
        try:
            if direction == "to":
                return abstract_value(c.encode(concretize_value(self.t.values[n], self.reg)), self.reg)
            return ["ok", abstract_value(c.decode(concretize_value(self.t.inputs[n], self.reg)), self.reg)]
        except RecursionError:
            return ["err", ["other", "RecursionError", ""]]
        except Exception as e:  # noqa: BLE001
            return norm_err(abstract_exception(e, self.reg))

    def close(self):
        self.reg.close()


_TABLES = None


def sys_match(exp, act, direction, kw):
    from harness.terms import canon, eqform, wire_match
    if direction != "to":
        return terms_equal(exp, act)
    if kw == "newline":
        return isinstance(act, list) and len(act) == 3 and act[0] == "nl" and act[2] is True and wire_match(canon(exp), act[1])
    return wire_match(canon(exp), act)


def _run_sys(beh):
    from harness.terms import canon, wire_match
    t = _TABLES
    w = World(t)
    out = {"events": 0, "mism": [], "drift": []}
    try:
        for idx, ev in enumerate(beh):
            out["events"] += 1
            kind = ev[0]
            if kind == "Define":
                w.define(ev[1])
                continue
            n, direction, d = ev[1], ev[2], ev[3]
            f, kw = (ev[4], ev[5]) if kind == "Call" else ("dict", "none")
            if kind == "CreateCodec":
                if not w.create_codec(n, direction, d):
                    out["drift"].append(f"CreateCodec({n},{direction},{d}) changed the class namespace")
                continue
            if kind == "Call":
                exp = t.calls[(n, direction, d, f, kw)]
                act = w.call(n, direction, d, f, kw)
            else:
                exp = t.codeccalls[(n, direction, d)]
                act = w.codec_call(n, direction, d)
            ok = sys_match(exp, act, direction, kw)
            if not ok:
                out["mism"].append({"clause": "history-dependent" if idx > 1 else "outcome", "step": idx, "history": beh[: idx + 1],
                                    "event": ev, "expected": exp, "actual": act})
                break
    finally:
        w.close()
    return out


def _run_twin(key):
    """C13: a freshly built twin (default dialect = D) must give the same result as the call with dialect=D"""
    from harness.real import abstract_exception
    from harness.terms import Registry, abstract_value, canon, concretize_type, concretize_value, wire_match
    t = _TABLES
    n, direction, d, f, kw = key
    reg = Registry()
    try:
        cls = concretize_type(t.twins[key], reg)
        try:
            if direction == "to":
                act = abstract_value(concretize_value(t.values[n], reg).to_dict(), reg)
            else:
                act = ["ok", abstract_value(cls.from_dict(concretize_value(t.inputs[n], reg)), reg)]
        except Exception as e:  # noqa: BLE001
            act = norm_err(abstract_exception(e, reg))
        exp = t.calls[key]
        ok = wire_match(canon(exp), act) if direction == "to" else terms_equal(exp, act)
        return None if ok else {"clause": "twin", "event": ["Twin", n, direction, d], "expected": exp, "actual": act, "history": []}
    finally:
        reg.close()


def replay_sys(tables: SysTables, procs=16, twins=True):
    global _TABLES
    _TABLES = tables
    agg = {"events": 0, "mism": [], "drift": set(), "behaviours": len(tables.behaviours)}
    ctx = mp.get_context("fork")
    with ctx.Pool(procs) as pool:
        for out in pool.imap_unordered(_run_sys, tables.behaviours, chunksize=32):
            agg["events"] += out["events"]
            agg["mism"].extend(out["mism"])
            agg["drift"].update(out["drift"])
        if twins:
            for m in pool.imap_unordered(_run_twin, list(tables.twins), chunksize=1):
                agg["events"] += 1
                if m:
                    agg["mism"].append(m)
    return agg
