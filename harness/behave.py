"""Replays TLC-generated BEHAVIOURS (histories of a state-machine spec) against the real library.
Each behaviour runs in a fresh Registry (fresh classes => histories do not leak)."""
from __future__ import annotations

import multiprocessing as mp

from harness.core import norm_err
from harness.terms import jkey, terms_equal


def _run_c12(job):
    site, root, holder, dopts, beh = job
    from harness.real import BasicDecoder, Subject, abstract_exception
    from harness.terms import Registry, abstract_value, concretize_type, concretize_value
    reg = Registry()
    out = {"events": 0, "mism": [], "drift": []}
    try:
        rootcls = concretize_type(root, reg)
        holdercls = concretize_type(holder, reg) if site == "field" else None
        decoder = None
        for idx, ev in enumerate(beh):
            out["events"] += 1
            if ev[0] == "Define":
                concretize_type(ev[1], reg)
            elif ev[0] == "CreateDecoder":
                decoder = BasicDecoder(concretize_type(["discr", root, dopts], reg))
            elif ev[0] == "Deserialize":
                j, exp, acceptable = ev[1], norm_err(ev[2]), ev[3]
                d = concretize_value(j, reg)
                try:
                    if site == "config":
                        res = ["ok", abstract_value(rootcls.from_dict(d), reg)]
                    elif site == "field":
                        res = ["ok", abstract_value(holdercls.from_dict({"f": d}), reg)]
                    else:
                        res = ["ok", abstract_value(decoder.decode(d), reg)]
                except Exception as e:  # noqa: BLE001
                    res = norm_err(abstract_exception(e, reg))
                if site == "field" and exp[0] == "err" and exp[1][0] == "Invalid":
                    # the holder reports the outer field with the value it was given
                    pass
                ok = terms_equal(res, exp)
                if not ok and acceptable and res[0] == "ok":
                    o = res[1][2][0] if site == "field" else res[1]
                    ok = o[0] == "obj" and o[1] in acceptable
                if not ok:
                    out["mism"].append({"clause": "variant-choice", "step": idx, "history": beh[: idx + 1], "input": j,
                                        "expected": exp, "actual": res, "site": site, "root": root, "holder": holder, "dopts": dopts})
                    break
    finally:
        reg.close()
    return out


def replay_c12(site, root, holder, dopts, behaviours, procs=16):
    jobs = [(site, root, holder, dopts, b) for b in behaviours]
    agg = {"events": 0, "mism": [], "behaviours": len(jobs)}
    ctx = mp.get_context("fork")
    with ctx.Pool(procs) as pool:
        for out in pool.imap_unordered(_run_c12, jobs, chunksize=64):
            agg["events"] += out["events"]
            agg["mism"].extend(out["mism"])
    return agg
