"""Deterministic forced thread schedules for C14: threads are parked at the call and at the return of
CodeBuilder.add_pack_method / add_unpack_method (the two points that delimit 'compile + install' of a lazily
compiled method, spec/sys/Threads.tla) and released in the order of a TLC-generated schedule."""
from __future__ import annotations

import sys
import threading

POINT_FUNCS = {"add_pack_method", "add_unpack_method"}


class Scheduler:
    def __init__(self, schedule):
        self.schedule = list(schedule)
        self.pos = 0
        self.cv = threading.Condition()
        self.done = set()
        self.depth = {}
        self.desync = 0

    def wait_turn(self, tid):
        with self.cv:
            while True:
                # skip entries of threads that already finished (their remaining segments do not exist in this run)
                while self.pos < len(self.schedule) and self.schedule[self.pos] in self.done:
                    self.pos += 1
                if self.pos >= len(self.schedule):
                    self.desync += 1
                    return                       # schedule exhausted: run freely
                if self.schedule[self.pos] == tid:
                    self.pos += 1
                    self.cv.notify_all()
                    return
                if not self.cv.wait(timeout=5):
                    self.desync += 1
                    return

    def finish(self, tid):
        with self.cv:
            self.done.add(tid)
            self.cv.notify_all()

    def tracer(self, tid):
        sched = self

        def local(frame, event, arg):
            if event == "return":
                sched.depth[tid] -= 1
                if sched.depth[tid] == 0:
                    sched.wait_turn(tid)          # point 2: the real method is installed, about to re-dispatch
            return local

        def glob(frame, event, arg):
            if event == "call" and frame.f_code.co_name in POINT_FUNCS and frame.f_code.co_filename.endswith("builder.py"):
                sched.depth[tid] = sched.depth.get(tid, 0) + 1
                if sched.depth[tid] == 1:
                    sched.wait_turn(tid)          # point 1: inside the stub, about to compile
                return local
            return None
        return glob


def run_schedule(schedule, jobs):
    """jobs: {tid: callable}; returns {tid: result or exception}, desync count"""
    sched = Scheduler(schedule)
    results = {}

    def body(tid, fn):
        sys.settrace(sched.tracer(tid))
        try:
            sched.wait_turn(tid)                  # point 0: start
            try:
                results[tid] = ("ok", fn())
            except RecursionError:
                results[tid] = ("exc", "RecursionError")
            except Exception as e:  # noqa: BLE001
                results[tid] = ("exc", f"{type(e).__name__}: {e}"[:200])
        finally:
            sys.settrace(None)
            sched.finish(tid)

    threads = [threading.Thread(target=body, args=(tid, fn)) for tid, fn in jobs.items()]
    for t in threads:
        t.start()
    for t in threads:
        t.join(timeout=30)
    return results, sched.desync


class LineScheduler(Scheduler):
    """parks a thread before EVERY line of generated code (frames whose file is "<string>"): a schedule entry lets the named
    thread execute one such line.  Used with seeded random schedules for the lock-free registries of generated dispatchers."""

    def tracer(self, tid):
        sched = self

        def local(frame, event, arg):
            if event == "line":
                sched.wait_turn(tid)
            return local

        def glob(frame, event, arg):
            if event == "call" and frame.f_code.co_filename == "<string>":
                return local
            return None
        return glob


def run_line_schedule(schedule, jobs):
    sched = LineScheduler(schedule)
    results = {}

    def body(tid, fn):
        sys.settrace(sched.tracer(tid))
        try:
            try:
                results[tid] = ("ok", fn())
            except Exception as e:  # noqa: BLE001
                results[tid] = ("exc", f"{type(e).__name__}: {e}"[:200])
        finally:
            sys.settrace(None)
            sched.finish(tid)

    threads = [threading.Thread(target=body, args=(tid, fn)) for tid, fn in jobs.items()]
    for t in threads:
        t.start()
    for t in threads:
        t.join(timeout=30)
    return results, sched.desync
