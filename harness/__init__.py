"""Verification harness.  Importing the package puts the repository working tree under test
(VERIF_REPO, default /repo) first on sys.path, so that every later 'import mashumaro' -- from any
harness module, in any subprocess -- takes the library from that tree."""
import os
import sys

REPO = os.environ.get("VERIF_REPO", "/repo")
if sys.path[:1] != [REPO]:
    if REPO in sys.path:
        sys.path.remove(REPO)
    sys.path.insert(0, REPO)
