"""Seeded random generator of CONFIGURED dataclass families (channel V driver for the dataclass layer):
Config options x code-generation flags x Config.dialect x field-level options x three alias sources x defaults x nested
classes that did / did not opt in, together with calls (keyword arguments, call dialects) and candidate inputs.
Only generates; every expectation comes from TLC (CoreTrace judges each recorded call with Pack / Unpack under the call's context)."""
from __future__ import annotations

import random

from harness.gen import COLOR

FLAGS = ["omit_none_flag", "by_alias_flag", "dialect_flag"]
DATE = ["date"]
LD = ["list", DATE]


def mark(ident, mode="both"):
    return ["mark", ident, mode]


class ConfGen:
    def __init__(self, seed: int, plain_wire: bool = False):
        self.r = random.Random(seed * 104729 + 7)
        self.n = 0
        # plain_wire: no strategies and no dialects anywhere -- the documents are the built-in basic forms (subjects of the JSON
        # Schema checks, where a user strategy makes the document whatever the user says); alias sources collide more often
        self.plain_wire = plain_wire

    def fresh(self, base):
        self.n += 1
        return f"{base}{self.n}"

    # ---- pieces
    def table(self, ident):
        """a strategy table over the keys date / List[date] / origin list, each entry with its own marker"""
        r = self.r
        out = []
        if r.random() < 0.7:
            out.append([DATE, r.choice([mark(ident + "_d"), mark(ident + "_d", "ser"), mark(ident + "_d", "deser"), ["pass_through"]])])
        if r.random() < 0.3:
            out.append([LD, mark(ident + "_ld")])
        if r.random() < 0.25:
            out.append([["origin", "list"], mark(ident + "_ol")])
        if r.random() < 0.3:
            out.append([["int"], ["shift", ident + "_i", "both", r.choice([100, -7, 1000])]])     # lossless: round trips under the same dialect
        return out

    def dialect(self, name):
        r = self.r
        d = [["name", name]]
        for o in ("omit_none", "omit_default", "serialize_by_alias"):
            if r.random() < 0.3:
                d.append([o, r.random() < 0.7])
        if r.random() < 0.3:
            d.append(["no_copy", sorted(r.sample(["list", "dict"], r.randint(1, 2)))])
        if r.random() < 0.5:
            t = self.table(name.lower())
            if t:
                d.append(["strategy", t])
        return d

    LIT_POOL = ["t/p", "t p", "t_p", "a'b", "a\nb", "a\\b", "x", "X"]

    def literal(self):
        r = self.r
        vals = [["str", s_] for s_ in r.sample(self.LIT_POOL, r.randint(1, 2))]
        # (no int constants: together with an int serialization strategy the real packer converts the constant and the
        #  unpacker compares the raw input -- an obscure asymmetry outside what C11 / C16 state; strings have no strategy here)
        return ["literal", vals]

    def leaf_type(self):
        r = self.r
        p = r.random()
        if p < 0.08:
            return r.choice([["union", [DATE, ["str"]]], ["union", [["int"], DATE]], ["union", [["str"], ["list", ["int"]]]],
                             ["union", [["int"], ["str"]]], ["opt", ["union", [["int"], ["str"]]]]])
            # (Optional[Union[int, str]] IS Union[int, str, None]; with a str member nothing is ever "garbage", so the known finding F07 --
            #  unions with None turn undecodable input into None -- cannot decide an outcome here; C11's own check exercises it)
        if p < 0.16:
            return self.literal()
        return self.r.choice([["int"], ["str"], ["opt", ["int"]], ["opt", ["str"]], DATE, ["opt", DATE], LD, ["list", ["int"]],
                              ["dict", ["str"], ["int"]], ["dict", ["str"], DATE], ["opt", ["list", ["int"]]], ["bool"], ["float"],
                              ["tuple", [["int"], ["opt", ["str"]]]], COLOR, ["text", "decimal"], ["dict", ["str"], ["list", ["int"]]],
                              ["list", ["dict", ["str"], ["int"]]], ["list", ["opt", DATE]],
                              ["opt", ["tuple", [["opt", ["str"]], ["int"]]]], ["opt", ["tuple", [["opt", DATE], ["opt", ["int"]]]]]])

    def value(self, T):
        if T[0] == "literal":
            return self.r.choice(T[1])
        if T[0] == "union" and any(m[0] == "literal" for m in T[1]):
            return self.value(self.r.choice(T[1]))
        from harness.gen import Gen
        if not hasattr(self, "_g"):
            self._g = Gen(1, max_depth=2)
            self._g.r = self.r
            self._g.small_ints = True
        return self._g.value(T)

    def klass(self, name, depth, nested=None):
        """one configured dataclass term; nested: an inner class term to use at up to three positions"""
        r = self.r
        fields = []
        nf = r.randint(2, 5)
        cfg_aliases = []
        need_default = False
        positions = []
        if nested is not None:
            positions = r.sample([("one", nested), ("many", ["list", nested]), ("maybe", ["opt", nested]), ("by", ["dict", ["str"], nested])], r.randint(1, 3))
        specs = [(f"f{i}", self.leaf_type()) for i in range(nf)] + positions
        r.shuffle(specs)
        for fname, t in specs:
            opts = []
            p = r.random()
            if p < 0.15:
                opts.append(["alias", "A_" + fname])
            elif p < 0.27:
                opts.append(["aalias", "B_" + fname])
            elif p < 0.4:
                cfg_aliases.append([fname, "C_" + fname])
            if p < 0.27 and r.random() < (0.5 if self.plain_wire else 0.15):
                cfg_aliases.append([fname, "C_" + fname])          # two sources on one field: the more specific one wins
            if self.plain_wire and t in (DATE, ["opt", DATE]) and r.random() < 0.5:
                # schema subjects: a field-level strategy that overrides ONE direction only, over a class-level typed strategy
                opts.append(["strategy", r.choice([["mark", "fs_" + fname, "deser"], ["typed", "ft_" + fname, "ser"], ["typed", "ft_" + fname, "both"]])])
                self._want_typed = True
            if not self.plain_wire and t in (DATE, LD, ["opt", DATE]) and r.random() < 0.2:
                opts.append(["strategy", r.choice([mark("fs_" + fname), mark("fs_" + fname, "ser"), mark("fs_" + fname, "deser"), ["pass_through"]])])
            q = r.random()
            if need_default or q < 0.45:
                need_default = True
                if t[0] == "opt" and r.random() < 0.5:
                    dflt = ["val", ["none"]]
                elif not self.plain_wire and t[0] != "opt" and t[0] in ("int", "str", "date") and r.random() < 0.15:
                    dflt = ["val", ["none"]]                        # a None default on a non-Optional annotation
                else:
                    v = self.value(t if t[0] != "opt" or r.random() < 0.8 else t[1])
                    if v == ["none"]:
                        dflt = ["val", v]
                    elif v[0] in ("list", "dict", "obj"):
                        dflt = ["fac", v]
                    else:
                        dflt = ["val", v]
            else:
                dflt = ["req"]
            fields.append([fname, t, dflt, opts])
        cfg = []
        for o, pr in (("omit_none", 0.25), ("omit_default", 0.2), ("serialize_by_alias", 0.4), ("forbid_extra_keys", 0.25),
                      ("allow_deserialization_not_by_alias", 0.3)):
            if self.plain_wire:
                # C06 speaks of documents serialized "with default options (by alias where aliases exist)"
                if o == "serialize_by_alias":
                    cfg.append([o, True])
                elif o in ("forbid_extra_keys", "allow_deserialization_not_by_alias") and r.random() < pr:
                    cfg.append([o, True])
                continue
            if r.random() < pr:
                cfg.append([o, r.random() < 0.8])
        if cfg_aliases:
            cfg.append(["aliases", cfg_aliases])
        fl = [] if self.plain_wire else [f for f in FLAGS if r.random() < 0.4]
        if fl:
            cfg.append(["flags", fl])
        if not self.plain_wire and r.random() < 0.3:
            cfg.append(["dialect", self.dialect("CD" + name)])
        if self.plain_wire and getattr(self, "_want_typed", False) and r.random() < 0.7:
            cfg.append(["cfg_strategy", [[DATE, ["typed", "ct" + name.lower(), r.choice(["ser", "both"])]]]])
        self._want_typed = False
        if not self.plain_wire and r.random() < 0.2:
            t = self.table("cs" + name.lower())
            if t:
                cfg.append(["cfg_strategy", t])
        if r.random() < 0.2:
            cfg.append(["lazy", True])
        return ["dc", name, fields, cfg]

    def family(self):
        """-> (T, [(value, callopts)], call dialect pool)"""
        r = self.r
        inner = None
        if r.random() < 0.7:
            inner = self.klass(self.fresh("In"), 0)
            if r.random() < 0.3:
                inner[3] = [o for o in inner[3] if o[0] != "lazy"] + [["mixin", "plain"]]
                inner[3] = [o for o in inner[3] if o[0] not in ("flags",)]          # a plain dataclass has no keyword interface of its own
        T = self.klass(self.fresh("Out"), 1, nested=inner)
        return T

    def calls(self, T):
        """keyword arguments / call dialects the class enabled, in random combination (plus the plain call)"""
        r = self.r
        flags = set()
        for o in T[3]:
            if o[0] == "flags":
                flags = set(o[1])
        pool = [self.dialect("K1"), self.dialect("K2")]
        out = [[]]
        for _ in range(r.randint(2, 5)):
            c = []
            if "omit_none_flag" in flags and r.random() < 0.6:
                c.append(["omit_none", r.random() < 0.5])
            if "by_alias_flag" in flags and r.random() < 0.6:
                c.append(["by_alias", r.random() < 0.5])
            if "dialect_flag" in flags and r.random() < 0.7:
                c.append(["dialect", r.choice(pool)])
            out.append(c)
        r.shuffle(out)
        return out

    def inputs(self, T, wire):
        """candidate from_dict arguments derived from a REAL to_dict() result: keys renamed between name and alias, doubled,
        dropped, nulled, garbage values, stranger keys"""
        r = self.r
        if wire[0] != "dict":
            return [wire]
        names = {}
        for f in T[2]:
            al = None
            for o in f[3]:
                if o[0] in ("alias", "aalias") and al is None:
                    al = o[1]
            if al is None:
                for o in T[3]:
                    if o[0] == "aliases":
                        for a, b in o[1]:
                            if a == f[0]:
                                al = b
            names[f[0]] = al
        rev = {v: k for k, v in names.items() if v}
        # a field typed Union[A, B, None] turns garbage into None (known finding F07, exercised by C11's own check): here such a
        # field only meets its own values, null and absence, so that the FIRST failing field of an input is never decided by F07
        swallow = {f[0] for f in T[2] if f[1][0] == "opt" and f[1][1][0] == "union"}
        out = [wire]
        pairs = wire[1]
        for _ in range(6):
            ps = []
            for k, v in pairs:
                key = k[1] if k[0] == "str" else None
                other = names.get(key) or rev.get(key)
                a = r.random()
                if (key in swallow or rev.get(key) in swallow) and 0.22 <= a < 0.3:
                    a = 0.9
                if a < 0.12:
                    continue                                       # dropped
                if a < 0.22:
                    ps.append([k, ["none"]])
                elif a < 0.3:
                    ps.append([k, r.choice([["str", "garbage"], ["list", []], ["int", 7], ["dict", []]])])
                elif a < 0.5 and other:
                    ps.append([["str", other], v])                 # the field's other key
                elif a < 0.6 and other:
                    ps.append([k, v])
                    ps.append([["str", other], r.choice([v, ["none"]] + ([] if (key in swallow or rev.get(key) in swallow) else [["str", "shadow"]]))])   # both keys present
                else:
                    ps.append([k, v])
            if r.random() < 0.25:
                ps.append([["str", "stranger"], ["int", 1]])
            r.shuffle(ps)
            out.append(["dict", ps])
        return out
