"""Runs TLC on a spec from /verif/spec in a scratch directory and parses its output."""
from __future__ import annotations

import json
import os
import re
import shutil
import subprocess
import tempfile
import time
from dataclasses import dataclass, field

VERIF = os.path.dirname(os.path.dirname(os.path.abspath(__file__)))
SPEC = os.path.join(VERIF, "spec")
JAR = "/opt/veriftools/tla/tla2tools.jar:/opt/veriftools/tla/CommunityModules-deps.jar"


class MachineryError(Exception):
    """TLC/SANY could not run or produced output we cannot interpret (exit code 2)."""


@dataclass
class TlcResult:
    stdout: str
    printed: list = field(default_factory=list)      # decoded PrintT(ToJson(..)) payloads
    states_generated: int = 0
    distinct_states: int = 0
    violated: list = field(default_factory=list)     # invariant / property names reported violated
    error: str | None = None
    wall_s: float = 0.0
    coverage: dict = field(default_factory=dict)
    cmd: str = ""


_scratch_dirs: list[str] = []


def scratch(prefix="mverif-") -> str:
    d = tempfile.mkdtemp(prefix=prefix, dir=os.environ.get("VERIF_SCRATCH", "/tmp"))
    _scratch_dirs.append(d)
    return d


def cleanup():
    for d in _scratch_dirs:
        shutil.rmtree(d, ignore_errors=True)
    _scratch_dirs.clear()


def stage_specs(dst: str):
    """copy every .tla/.cfg below /verif/spec flat into dst"""
    for root, _dirs, files in os.walk(SPEC):
        for f in files:
            if f.endswith((".tla", ".cfg")):
                shutil.copy(os.path.join(root, f), os.path.join(dst, f))


def run_tlc(module: str, cfg: str | None = None, *, workdir: str | None = None, workers: int | str = 1,
            env: dict | None = None, timeout: int = 600, extra: list[str] | None = None,
            cfg_text: str | None = None, deadlock: bool = False, dfs: bool = False,
            heap: str = "8g") -> TlcResult:
    wd = workdir or scratch()
    if not os.path.exists(os.path.join(wd, "Terms.tla")):
        stage_specs(wd)
    cfg = cfg or module + ".cfg"
    if cfg_text is not None:
        with open(os.path.join(wd, cfg), "w") as fh:
            fh.write(cfg_text)
    meta = os.path.join(wd, "md_" + module + "_" + str(time.time_ns()))
    # single-worker jobs run sixteen at a time (trace validation): a parallel collector per JVM means hundreds of GC threads
    gc = os.environ.get("VERIF_TLC_GC") or ("-XX:+UseSerialGC" if str(workers) == "1" else "-XX:+UseParallelGC")
    java = ["java"] + gc.split() + [f"-Xmx{heap}", "-Dfile.encoding=UTF-8", "-Dstdout.encoding=UTF-8",
                                    "-Dsun.stdout.encoding=UTF-8"]
    if dfs:
        java.append("-Dtlc2.tool.queue.IStateQueue=StateDeque")
    cmd = java + ["-cp", JAR, "tlc2.TLC", "-workers", str(workers), "-metadir", meta,
                  "-noGenerateSpecTE", "-config", cfg]
    if not deadlock:
        cmd.append("-deadlock")   # -deadlock DISABLES deadlock checking
    if extra:
        cmd += extra
    cmd.append(module)
    e = dict(os.environ)
    e.pop("JAVA_TOOL_OPTIONS", None)
    if env:
        e.update({k: str(v) for k, v in env.items()})
    t0 = time.time()
    try:
        p = subprocess.run(cmd, cwd=wd, env=e, capture_output=True, timeout=timeout)
    except subprocess.TimeoutExpired as ex:
        raise MachineryError(f"TLC timeout after {timeout}s on {module}") from ex
    out = p.stdout.decode("utf-8", "replace") + p.stderr.decode("utf-8", "replace")
    res = parse_output(out)
    res.wall_s = time.time() - t0
    res.cmd = " ".join(cmd[cmd.index("tlc2.TLC"):])
    shutil.rmtree(meta, ignore_errors=True)
    if res.error and not res.violated:
        raise MachineryError(f"TLC failed on {module}: {res.error}\n--- tail of output ---\n{out[-3000:]}")
    return res


_STATS = re.compile(r"(\d+) states generated, (\d+) distinct states found")
_VIOL = re.compile(r"Error: (?:Invariant|Action property|Temporal property) (\S+) (?:is|was) violated")


def parse_output(out: str) -> TlcResult:
    res = TlcResult(stdout=out)
    for line in out.splitlines():
        if line.startswith('"') and line.endswith('"'):
            try:
                s = json.loads(line)
                res.printed.append(json.loads(s))
            except Exception:
                pass
    for m in _STATS.finditer(out):
        res.states_generated = int(m.group(1))
        res.distinct_states = int(m.group(2))
    res.violated = _VIOL.findall(out)
    if "Error:" in out:
        m = re.search(r"Error: (.*(?:\n(?!\n).*){0,6})", out)
        res.error = m.group(1) if m else "unknown TLC error"
    elif "Model checking completed. No error has been found" not in out and "Finished in" not in out:
        if "The number of states generated" not in out and not _STATS.search(out):
            res.error = "TLC did not complete"
    return res
