"""Drives the REAL library (imported from the repository's working tree) on term-level vectors
and abstracts what it observes.  No expectations here."""
from __future__ import annotations

import copy
import os
import sys

REPO = os.environ.get("VERIF_REPO", "/repo")
if REPO not in sys.path:
    sys.path.insert(0, REPO)

import mashumaro  # noqa: E402

if not os.path.abspath(mashumaro.__file__).startswith(os.path.abspath(REPO) + os.sep):
    raise RuntimeError(f"mashumaro imported from {mashumaro.__file__}, expected {REPO}")

from mashumaro.codecs.basic import BasicDecoder, BasicEncoder  # noqa: E402
from mashumaro import exceptions as mexc  # noqa: E402

from harness.terms import (BridgeError, Registry, abstract_value, concretize_type,  # noqa: E402
                           concretize_value, get_opt)


def is_mixin_dc(T) -> bool:
    return T[0] == "dc" and get_opt(T[3], "mixin", "dict") != "plain"


def abstract_exception(e: BaseException, reg: Registry):
    t = type(e)
    name = lambda c: reg.term_name.get(c, getattr(c, "__name__", repr(c)))  # noqa: E731
    if t is mexc.MissingField:
        return ["err", ["Missing", e.field_name, name(e.holder_class)]]
    if t is mexc.InvalidFieldValue:
        return ["err", ["Invalid", e.field_name, abstract_value(e.field_value, reg), name(e.holder_class)]]
    if t is mexc.ExtraKeysError:
        from harness.terms import canon
        return ["err", ["Extra", canon(["set", [abstract_value(k, reg) for k in e.extra_keys]])[1], name(e.target_type)]]
    if t is mexc.MissingDiscriminatorError:
        return ["err", ["MissingDiscr", e.field_name]]
    if t is mexc.SuitableVariantNotFoundError:
        return ["err", ["NoVariant"]]
    if t is ValueError:
        return ["err", ["ValueError"]]
    return ["err", ["other", t.__name__, str(e)[:120]]]


class Subject:
    """A compiled (type term -> real class / codec) pair inside one Registry."""

    def __init__(self, T, reg: Registry | None = None, cxopts=None):
        self.T = T
        self.reg = reg or Registry()
        self.ann = concretize_type(T, self.reg)
        self.mixin = is_mixin_dc(T)
        self._enc = None
        self._dec = None

    def dialect_for(self, dterm):
        """one Dialect class per distinct dialect term (same term => same class object)"""
        from harness.classes import build_dialect
        from harness.terms import jkey
        if not hasattr(self, "_dialects"):
            self._dialects = {}
        k = jkey(dterm)
        if k not in self._dialects:
            self._dialects[k] = build_dialect(dterm, self.reg)
        return self._dialects[k]

    def encode_py(self, x, **kw):
        if self.mixin:
            return x.to_dict(**kw)
        if self._enc is None:
            self._enc = BasicEncoder(self.ann)
        return self._enc.encode(x)

    def decode_py(self, d, **kw):
        if self.mixin:
            return self.ann.from_dict(d, **kw)
        if self._dec is None:
            self._dec = BasicDecoder(self.ann)
        return self._dec.decode(d)

    def encode(self, v, **kw):
        """value term -> ["ok", wire term] | ["err", ...]"""
        x = concretize_value(v, self.reg)
        try:
            out = self.encode_py(x, **kw)
        except Exception as e:  # noqa: BLE001
            return abstract_exception(e, self.reg)
        return ["ok", abstract_value(out, self.reg)]

    def decode(self, j, **kw):
        d = concretize_value(j, self.reg)
        before = copy.deepcopy(d)
        try:
            out = self.decode_py(d, **kw)
        except RecursionError as e:
            return ["err", ["other", "RecursionError", ""]], True
        except Exception as e:  # noqa: BLE001
            res = abstract_exception(e, self.reg)
        else:
            res = ["ok", abstract_value(out, self.reg)]
        unchanged = _same(before, d)
        return res, unchanged

    def close(self):
        self.reg.close()


def _same(a, b):
    try:
        return type(a) is type(b) and a == b and repr(a) == repr(b)
    except Exception:  # noqa: BLE001
        return True
