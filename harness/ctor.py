"""The Ctor table (spec/ref/Ctor.tla): documented constructors / parsers of the leaf types,
evaluated with the Python STANDARD LIBRARY only (mashumaro is never called here).

  table(kinds, inputs) -> [[kind, j, ["ok", v] | ["err"]], ...]
"""
from __future__ import annotations

import base64
import datetime as dt

from harness.terms import TEXT_CTOR, Registry, abstract_value, concretize_value, jkey

_reg = Registry()

SCALAR_KINDS = ["int", "float", "bool", "str"]


def _apply(kind, x):
    if kind == "int":
        return int(x)
    if kind == "float":
        return float(x)
    if kind == "bool":
        return bool(x)
    if kind == "str":
        return str(x)
    if kind == "date":
        return dt.date.fromisoformat(x)
    if kind == "datetime":
        return dt.datetime.fromisoformat(x)
    if kind == "time":
        return dt.time.fromisoformat(x)
    if kind == "timedelta":
        return dt.timedelta(seconds=x)
    if kind == "bytes":
        return base64.decodebytes(x.encode())
    if kind == "bytearray":
        return bytearray(base64.decodebytes(x.encode()))
    if kind == "iter":
        if type(x) is not str:
            raise TypeError("iter kind is for text only")
        return list(x)
    if kind in TEXT_CTOR:
        return TEXT_CTOR[kind](x)
    raise KeyError(kind)


def entry(kind, j):
    try:
        x = concretize_value(j, _reg)
        r = _apply(kind, x)
        out = ["ok", abstract_value(r, _reg)]
        if _contains(out[1], ("pyobj", "tzother")):
            return None       # outside the term language: leave the pair UNKNOWN (unmodelled)
        return [kind, j, out]
    except Exception:
        return [kind, j, ["err"]]


def _contains(t, tags):
    if isinstance(t, list):
        if t and isinstance(t[0], str) and t[0] in tags:
            return True
        return any(_contains(e, tags) for e in t)
    return False


def subterms(j, acc):
    """all value subterms of a JSON-like input term"""
    acc[jkey(j)] = j
    tag = j[0]
    if tag in ("list", "tuple", "set", "frozenset", "deque"):
        for e in j[1]:
            subterms(e, acc)
    elif tag in ("dict", "OrderedDict", "defaultdict", "Counter", "mappingproxy"):
        for k, v in j[1]:
            subterms(k, acc)
            subterms(v, acc)
    elif tag == "ChainMap":
        for m in j[1]:
            subterms(m, acc)
    elif tag == "str":
        for ch in j[1]:
            acc[jkey(["str", ch])] = ["str", ch]
    return acc


def leaf_kinds(T, acc):
    tag = T[0]
    if tag in ("int", "float", "bool", "str", "date", "datetime", "time", "timedelta", "bytes", "bytearray"):
        acc.add(tag)
    elif tag == "text":
        acc.add(T[1])
    elif tag == "literal":
        if any(c[0] == "bytes" for c in T[1]):
            acc.add("bytes")
    elif tag == "counter":
        acc.add("int")
        leaf_kinds(T[1], acc)
    elif tag in ("ntuple", "tdict"):
        for f in T[2]:
            leaf_kinds(f[1], acc)
    elif tag == "dc":
        for f in T[2]:
            leaf_kinds(f[1], acc)
        for b in _bases(T):
            leaf_kinds(b, acc)
    elif tag in ("newtype", "fwd", "tvarc", "tvarb", "stype", "alias695"):
        leaf_kinds(T[2], acc)
    elif tag == "rec695":
        leaf_kinds(T[3], acc)
    elif tag in ("utuple", "ustar"):
        for e in T[1]:
            leaf_kinds(e, acc)
        leaf_kinds(T[2], acc)
        for e in T[3]:
            leaf_kinds(e, acc)
    elif tag in ("tuple", "union"):
        for e in T[1]:
            leaf_kinds(e, acc)
    else:
        for e in T[1:]:
            if isinstance(e, list) and e and isinstance(e[0], str):
                leaf_kinds(e, acc)
    return acc


def _bases(T):
    for o in T[3]:
        if o[0] == "bases":
            return o[1]
    return []


class CtorTable:
    def __init__(self):
        self.rows: dict[str, list] = {}

    def add(self, kinds, inputs):
        for j in inputs:
            if j[0] in ("str",):
                k = jkey(["iter", j])
                if k not in self.rows:
                    e = entry("iter", j)
                    if e:
                        self.rows[k] = e
            for kind in kinds:
                k = jkey([kind, j])
                if k not in self.rows:
                    e = entry(kind, j)
                    if e:
                        self.rows[k] = e

    def add_pair(self, T, j):
        kinds = leaf_kinds(T, set())
        self.add(kinds, subterms(j, {}).values())

    def dump(self):
        out: dict[str, list] = {}
        for kind, j, res in self.rows.values():
            out.setdefault(kind, []).append([j, res])
        return out or {"nokind": []}
