"""Violation records, known-findings matching, replay files, evidence files."""
from __future__ import annotations

import hashlib
import json
import os
import time

from harness.terms import canon, jkey

VERIF = os.path.dirname(os.path.dirname(os.path.abspath(__file__)))
KNOWN = os.path.join(VERIF, "known_findings.json")


def load_known():
    if not os.path.exists(KNOWN):
        return []
    with open(KNOWN) as fh:
        return json.load(fh)["findings"]


# ---- pattern language over violation records
def _subterms(t):
    yield t
    if isinstance(t, list):
        for e in t:
            yield from _subterms(e)


def pmatch(pat, val) -> bool:
    if pat == "*":
        return True
    if isinstance(pat, dict):
        if "$in" in pat:
            return any(pmatch(p, val) for p in pat["$in"])
        if "$subterm" in pat:
            return any(pmatch(pat["$subterm"], s) for s in _subterms(val))
        if "$not" in pat:
            return not pmatch(pat["$not"], val)
        if "$all" in pat:
            return all(pmatch(p, val) for p in pat["$all"])
        if "$prefix" in pat:
            p = pat["$prefix"]
            return isinstance(val, list) and len(val) >= len(p) and all(pmatch(a, b) for a, b in zip(p, val))
        if "$every" in pat:
            return isinstance(val, list) and len(val) > 0 and all(pmatch(pat["$every"], e) for e in val)
        if "$has" in pat:
            return isinstance(val, list) and any(pmatch(pat["$has"], e) for e in val)
        if "$re" in pat:
            import re
            return isinstance(val, str) and re.search(pat["$re"], val) is not None
        if isinstance(val, dict):
            return all(k in val and pmatch(p, val[k]) for k, p in pat.items())
        return False
    if isinstance(pat, list):
        return isinstance(val, list) and len(pat) == len(val) and all(pmatch(a, b) for a, b in zip(pat, val))
    if isinstance(pat, bool) or isinstance(val, bool):
        return type(pat) is type(val) and pat == val
    return pat == val


# ---- structural features of a violation record (used only to IDENTIFY known findings)
def _walk_types(T):
    if isinstance(T, list) and T and isinstance(T[0], str):
        yield T
        tag = T[0]
        if tag in ("dc", "ntuple", "tdict"):
            for f in T[2]:
                yield from _walk_types(f[1])
            if tag == "dc":
                for o in T[3]:
                    if o[0] == "bases":
                        for b in o[1]:
                            yield from _walk_types(b)
        elif tag in ("tuple", "union"):
            for e in T[1]:
                yield from _walk_types(e)
        elif tag in ("utuple", "ustar"):
            for e in T[1] + [T[2]] + T[3]:
                yield from _walk_types(e)
        elif tag in ("newtype", "fwd", "tvarc", "tvarb", "stype", "alias695"):
            yield from _walk_types(T[2])
        elif tag in ("enum", "flag", "literal", "text", "recref"):
            return
        elif tag == "rec695":
            yield from _walk_types(T[3])
        else:
            for e in T[1:]:
                yield from _walk_types(e)


_CONT_V = {"list", "tuple", "deque", "set", "frozenset", "dict", "OrderedDict", "defaultdict", "Counter", "ChainMap", "mappingproxy"}
_SCALAR_T = {"int", "float", "bool", "str", "none"}


def _value_matches_member(M, v):
    tag = M[0]
    m = {"list": "list", "seq": "list", "mseq": "list", "deque": "deque", "set": "set", "aset": "set", "frozenset": "frozenset",
         "vtuple": "tuple", "tuple": "tuple", "utuple": "tuple", "ustar": "tuple", "dict": "dict", "mapping": "dict", "mmapping": "dict",
         "odict": "OrderedDict", "ddict": "defaultdict", "counter": "Counter", "chainmap": "ChainMap", "mproxy": "mappingproxy"}
    return m.get(tag) == v[0]


def _union_misdispatch(T, v, out):
    """joint walk of (type, value): at a union position, a CONTAINER value whose matching member is preceded by another
    non-scalar member (the known 'first packer that does not raise' defect concerns exactly this situation)"""
    if not (isinstance(T, list) and isinstance(v, list) and T and v):
        return
    tag = T[0]
    if tag == "union":
        if v[0] in _CONT_V:
            idx = [i for i, M in enumerate(T[1]) if _value_matches_member(M, v)]
            if idx and any(M[0] not in _SCALAR_T for M in T[1][: idx[0]]):
                out.add("union-container-value-after-other-container-member")
            if not idx:
                out.add("union-container-value-after-other-container-member")
        for M in T[1]:
            if _value_matches_member(M, v) or (M[0] == "dc" and v[0] == "obj" and M[1] == v[1]):
                _union_misdispatch(M, v, out)
    elif tag == "opt":
        if v != ["none"]:
            _union_misdispatch(T[1], v, out)
    elif tag == "dc" and v[0] == "obj":
        for f, x in zip(T[2], v[2]):
            _union_misdispatch(f[1], x, out)
    elif tag in ("list", "seq", "mseq", "deque", "vtuple", "set", "aset", "frozenset") and isinstance(v[1], list):
        for x in v[1]:
            _union_misdispatch(T[1], x, out)
    elif tag == "tuple" and isinstance(v[1], list):
        for t, x in zip(T[1], v[1]):
            _union_misdispatch(t, x, out)
    elif tag in ("dict", "mapping", "mmapping", "odict", "ddict", "mproxy") and isinstance(v[1], list):
        for kv in v[1]:
            _union_misdispatch(T[2], kv[1], out)
    elif tag in ("newtype", "fwd", "tvarc", "tvarb", "alias695"):
        _union_misdispatch(T[2], v, out)
    elif tag == "stype" and v[0] == "sobj":
        _union_misdispatch(T[2], v[2], out)
    elif tag == "tdict" and v[0] == "dict":
        have = {kv[0][1]: kv[1] for kv in v[1] if kv[0][0] == "str"}
        for f in T[2]:
            if f[0] in have:
                _union_misdispatch(f[1], have[f[0]], out)
    elif tag == "ntuple" and v[0] == "nt":
        for f, x in zip(T[2], v[2]):
            _union_misdispatch(f[1], x, out)
    elif tag in ("utuple", "ustar") and v[0] == "tuple":
        xs, pre, post = v[1], T[1], T[3]
        for t, x in zip(pre, xs):
            _union_misdispatch(t, x, out)
        for x in xs[len(pre): len(xs) - len(post)]:
            _union_misdispatch(T[2], x, out)
        for t, x in zip(post, xs[len(xs) - len(post):] if post else []):
            _union_misdispatch(t, x, out)
    elif tag == "chainmap" and v[0] == "ChainMap":
        for m in v[1]:
            for kv in m[1]:
                _union_misdispatch(T[2], kv[1], out)
    elif tag == "counter":
        pass
    elif tag in ("final", "annotated"):
        _union_misdispatch(T[1], v, out)


def _none_t(x):
    """the type term means NoneType (seen through NewType / PEP 695 alias / Final / Annotated wrappers)"""
    while isinstance(x, list) and x and x[0] in ("newtype", "alias695"):
        x = x[2]
    while isinstance(x, list) and x and x[0] in ("final", "annotated", "opt"):      # Optional[None] IS NoneType
        x = x[1]
    return x == ["none"]


def features(rec) -> list:
    out = set()
    T = rec.get("T")
    if not T:
        return []
    subs = list(_walk_types(T))
    for t in subs:
        out.add("T:" + t[0])
        if t[0] == "tdict" and any(_none_t(f[1]) and f[2] for f in t[2]):
            out.add("tdict-none-required")
        if t[0] in ("dict", "odict", "ddict", "mapping", "mmapping", "mproxy", "chainmap", "counter"):
            k = t[1]
            while k[0] == "newtype":
                k = k[2]
            nonstr = k[0] in ("int", "float", "bool", "timedelta", "none", "any") or \
                (k[0] == "enum" and any(m[1][0] != "str" for m in k[3]))
            if nonstr:
                out.add("mapping-nonstring-key")
        if t[0] == "union" and ["none"] in t[1] and len(t[1]) >= 3:
            out.add("union-none-3plus")
        if t[0] == "opt" and t[1][0] == "union" and len(t[1][1]) >= 2:
            out.add("union-none-3plus")          # Optional[Union[A, B]] IS Union[A, B, None]
        if t[0] in ("tuple",) and any(_none_t(e) for e in t[1]):
            out.add("none-typed-element")
        if t[0] in ("utuple", "ustar") and (any(_none_t(e) for e in t[1] + t[3]) or _none_t(t[2])):
            out.add("none-typed-element")
        if t[0] in ("ntuple", "tdict") and any(_none_t(f[1]) for f in t[2]):
            out.add("none-typed-element")
        if t[0] == "union":
            conts = [m for m in t[1] if m[0] not in ("int", "float", "bool", "str", "none")]
            if len(conts) >= 2 or (len(conts) >= 1 and any(m[0] == "str" for m in t[1])):
                out.add("union-container-members")
        if t[0] == "newtype" and t[2][0] == "opt":
            out.add("newtype-over-opt")
        if t[0] == "dc":
            for f in t[2]:
                if f[1][0] == "newtype" and f[1][2][0] in ("opt", "any", "none"):
                    out.add("field-newtype-over-nullable")
    gens = {}
    for t in subs:
        if t[0] == "dc" and len(t) > 3:
            for o in t[3]:
                if o[0] == "generic":
                    gens.setdefault(t[1], set()).add(jkey(o[1][1]))
    if any(len(a) > 1 for a in gens.values()):
        out.add("generic-multi-specialisation")
    call = rec.get("call") or []
    if call and T[0] == "dc":
        def _flags(D):
            for o in D[3]:
                if o[0] == "flags":
                    return set(o[1])
            return set()
        top = _flags(T)
        kws = {o[0] for o in call}
        for o in call:
            if o[0] == "dialect":
                dopts = {d[0] for d in o[1]}
                for D in subs:
                    if D[0] != "dc" or "dialect_flag" not in _flags(D):
                        continue
                    fl = _flags(D)
                    # a keyword given explicitly reaches D only through classes that enabled the same flag
                    if "omit_none" in dopts and "omit_none_flag" in fl and not ("omit_none" in kws and "omit_none_flag" in top):
                        out.add("call-dialect-option-shadowed-by-flag-default")
                    if "serialize_by_alias" in dopts and "by_alias_flag" in fl and not ("by_alias" in kws and "by_alias_flag" in top):
                        out.add("call-dialect-option-shadowed-by-flag-default")
    if any(o[0] == "dialect" for o in call if isinstance(o, list) and o):
        # a GENERIC dataclass that enabled dialect support and is used specialised (Box[date]): the per-dialect dispatch compiles
        # CodeBuilder(cls, dialect=...) without the type arguments
        for t in subs:
            if t[0] == "dc" and len(t) > 3 and any(o[0] == "generic" for o in t[3]) and any(o[0] == "flags" and "dialect_flag" in o[1] for o in t[3]) and t is not T:
                out.add("nested-generic-with-dialect-support-called-with-dialect")
    if rec.get("entry") == "codec":
        # a codec compiles its own packer for a mixin class: keyword flags shared by an outer and a nested class are not forwarded
        flagsets = [set(o[1]) & {"omit_none_flag", "by_alias_flag"} for t in subs if t[0] == "dc" and len(t) > 3 for o in t[3] if o[0] == "flags"]
        if any(a & b for i, a in enumerate(flagsets) for b in flagsets[i + 1:]):
            out.add("codec-entry-nested-classes-sharing-keyword-flag")
    inp = rec.get("input")
    if inp is not None and rec.get("clause") in ("wire", "not-basic", "json-dumps", "roundtrip", "encode-raises", "schema-rejects-output"):
        try:
            _union_misdispatch(T, inp, out)
        except Exception:  # noqa: BLE001
            pass
    if inp is not None:
        need = [len(t[1]) + len(t[3]) for t in subs if t[0] in ("utuple", "ustar")]
        if need:
            for s_ in _subterms(inp):
                if isinstance(s_, list) and len(s_) == 2 and s_[0] in ("list", "str") and isinstance(s_[1], (list, str)):
                    if any(len(s_[1]) < n for n in need):
                        out.add("utuple-short-input")
                    # a text met where a COLLECTION of variadic tuples is expected is iterated character by character: every
                    # one-character string is itself a too-short input of the inner tuple (same re-use of items, F03)
                    nested = [len(t[1]) + len(t[3]) for t in subs if t[0] in ("utuple", "ustar") and t is not T]
                    if s_[0] == "str" and len(s_[1]) >= 1 and any(n > 1 for n in nested):
                        out.add("utuple-short-input")
    return sorted(out)


class Report:
    def __init__(self, prop: str, tier: str, seed: int, level: str = "model_checking"):
        self.prop = prop
        self.tier = tier
        self.seed = seed
        self.level = level
        self.t0 = time.time()
        self.violations: list[dict] = []
        self.known_hits: dict[str, int] = {}
        self.known = []
        for k in load_known():
            if prop in k.get("properties", []) and k.get("status") == "known":
                kk = dict(k)
                kk["where"] = k["where_by_property"][prop]
                self.known.append(kk)
        self.cov: dict = {"states": 0, "transitions": 0, "traces_validated_against_impl": 0,
                          "evaluations": 0, "samples": []}
        self.distinct: set[str] = set()
        self.notes: list[str] = []
        self.assumptions: list[str] = []
        self.unmodelled = 0
        self.drift: list[str] = []
        self.selftests: dict = {}

    # -- bookkeeping
    def add_tlc(self, res, label="", expect_violation=False):
        if res.violated and not expect_violation:
            # the reference semantics itself is inconsistent (and TLC stopped early): machinery problem, never a library violation
            from harness.tlc import MachineryError
            raise MachineryError(f"model theorem violated on the reference spec ({label}): {res.violated}")
        self.cov["states"] += res.distinct_states
        self.cov["transitions"] += res.states_generated
        self.cov.setdefault("tlc_runs", []).append(
            {"label": label, "cmd": res.cmd, "distinct_states": res.distinct_states,
             "states_generated": res.states_generated, "wall_s": round(res.wall_s, 1)})

    def sample(self, s, limit=6):
        if len(self.cov["samples"]) < limit:
            self.cov["samples"].append(s)

    def count(self, n=1):
        self.cov["evaluations"] += n

    def nontrivial(self, key):
        self.distinct.add(key if isinstance(key, str) else jkey(key))

    def violation(self, clause: str, record: dict):
        rec = dict(record)
        rec["property"] = self.prop
        rec["clause"] = clause
        rec["features"] = features(rec)
        for k in self.known:
            if pmatch(k["where"], rec):
                self.known_hits[k["id"]] = self.known_hits.get(k["id"], 0) + 1
                return False
        self.violations.append(rec)
        return True

    # -- output
    def finish(self, extra_cov: dict | None = None) -> int:
        # seeded-change trials (VERIF_EVIDENCE_DIR set) keep their replay files next to their evidence, not under /verif/replays
        rdir = os.path.join(os.environ["VERIF_EVIDENCE_DIR"], "replays") if os.environ.get("VERIF_EVIDENCE_DIR") else os.path.join(VERIF, "replays")
        os.makedirs(os.path.join(rdir, self.prop), exist_ok=True)
        lines = []
        for k in self.known:
            if k["id"] in self.known_hits:
                lines.append(f"KNOWN-FINDING: property={self.prop} {k['what']} [{k['id']}; {self.known_hits[k['id']]} case(s)]")
        seen = set()
        nshown = 0
        for rec in self.violations:
            h = hashlib.sha256(jkey(canon(_jsonable(rec))).encode()).hexdigest()[:16]
            if h in seen:
                continue
            seen.add(h)
            path = os.path.join(rdir, self.prop, h + ".json")
            if nshown < 25:
                with open(path, "w") as fh:
                    json.dump(_jsonable(rec), fh, indent=1)
                lines.append(f"VIOLATION property={self.prop} replay={path}")
                lines.append("  clause=%s %s" % (rec.get("clause"), _brief(rec)))
            nshown += 1
        if nshown > 25:
            lines.append(f"  ... {nshown - 25} further violations not written")
        cov = dict(self.cov)
        cov["distinct_nontrivial"] = len(self.distinct)
        cov["unmodelled_events"] = self.unmodelled
        cov["known_findings_hit"] = self.known_hits
        cov["drift_notes"] = self.drift[:20]
        cov["notes"] = self.notes
        cov["selftests"] = self.selftests
        if extra_cov:
            cov.update(extra_cov)
        if not cov["samples"]:
            cov["samples"] = ["(no case explored)"]
        ev = {
            "property_id": self.prop, "tier": self.tier, "seed": self.seed, "level": self.level,
            "coverage": cov, "assumptions": self.assumptions,
            "wall_s": round(time.time() - self.t0, 2), "violations": len(seen),
        }
        evdir = os.environ.get("VERIF_EVIDENCE_DIR") or os.path.join(VERIF, "evidence")     # seeded-change trials must not overwrite committed evidence
        os.makedirs(evdir, exist_ok=True)
        with open(os.path.join(evdir, self.prop + ".json"), "w") as fh:
            json.dump(_jsonable(ev), fh, indent=1)
        if os.environ.get("VERIF_DUMP"):
            with open(os.environ["VERIF_DUMP"], "w") as fh:
                json.dump(_jsonable(self.violations), fh)
        for ln in lines:
            print(ln)
        print(f"[{self.prop}] tier={self.tier} seed={self.seed} states={cov['states']} evaluations={cov['evaluations']} "
              f"distinct_nontrivial={cov['distinct_nontrivial']} traces={cov['traces_validated_against_impl']} "
              f"violations={len(seen)} known={sum(self.known_hits.values())} wall={ev['wall_s']}s")
        return 1 if seen else 0


def _brief(rec):
    out = []
    for k in ("T", "input", "expected", "actual"):
        if k in rec:
            s = json.dumps(_jsonable(rec[k]))
            out.append(f"{k}={s[:160]}")
    return " ".join(out)


def _jsonable(x):
    if isinstance(x, dict):
        return {str(k): _jsonable(v) for k, v in x.items()}
    if isinstance(x, (list, tuple)):
        return [_jsonable(e) for e in x]
    if isinstance(x, (set, frozenset)):
        return sorted((_jsonable(e) for e in x), key=lambda e: json.dumps(e, sort_keys=True))
    if isinstance(x, (str, int, float, bool)) or x is None:
        return x
    return repr(x)
