"""Seeded random generator of (type term, conforming value term) pairs that go DEEPER than the
exhaustive TLC bound (channel V drivers).  Only generates; expectations come from TLC."""
from __future__ import annotations

import random

from harness.terms import jkey

COLOR = ["enum", "Color", "Enum", [["RED", ["str", "r"]], ["GREEN", ["str", "g"]]]]
PRIO = ["enum", "Prio", "IntEnum", [["LOW", ["int", 1]], ["HIGH", ["int", 2]]]]
MODE = ["enum", "Mode", "StrEnum", [["ON", ["str", "on"]], ["OFF", ["str", "off"]]]]

TEXT_POOL = {
    "uuid": ["12345678-1234-5678-1234-567812345678", "00000000-0000-0000-0000-000000000000",
             "ffffffff-ffff-4fff-8fff-ffffffffffff"],
    "decimal": ["1.50", "-0", "1E+3", "0.000001", "123456789.987654321", "-7"],
    "fraction": ["1/3", "-7", "22/7", "0"],
    "ipv4addr": ["127.0.0.1", "10.0.0.255", "0.0.0.0"],
    "ipv6addr": ["::1", "2001:db8::ff00:42:8329", "::"],
    "ipv4net": ["192.168.0.0/24", "10.0.0.0/8"],
    "ipv6net": ["2001:db8::/32"],
    "ipv4if": ["192.168.0.7/24"],
    "ipv6if": ["2001:db8::1/64"],
    "pureposixpath": ["/tmp/x y", ".", "a/b/c", "/"],
    "purewindowspath": ["C:\\dir\\f.txt", "rel\\p"],
    "posixpath": ["rel/p", "/abs/q"],
    "pattern": ["a+b*", "", "^[a-z]{2,3}$"],
}

LEAVES = ([["int"], ["float"], ["bool"], ["str"], ["none"], ["any"], ["bytes"], ["bytearray"], ["datetime"],
           ["date"], ["time"], ["timedelta"], ["tz"], COLOR, PRIO, MODE] + [["text", k] for k in TEXT_POOL])
KEY_LEAVES = [t for t in LEAVES if t[0] not in ("none", "any", "bytearray") and t != ["text", "pattern"]]
STR_KEYS = [["str"], MODE, ["text", "uuid"], ["date"], ["text", "ipv4addr"]]


class Gen:
    def __init__(self, seed: int, max_depth: int = 4, str_keys_only: bool = False):
        self.str_keys_only = str_keys_only
        self.r = random.Random(seed)
        self.max_depth = max_depth
        self.n = 0

    # ---------------- types
    def fresh(self, base):
        self.n += 1
        return f"{base}{self.n}"

    def type(self, depth=None, hashable=False):
        r = self.r
        d = self.max_depth if depth is None else depth
        if d <= 0 or r.random() < 0.25:
            return r.choice(KEY_LEAVES if hashable else LEAVES)
        if hashable:
            c = r.choice(["leaf", "tuple", "frozenset", "vtuple"])
            if c == "leaf":
                return r.choice(KEY_LEAVES)
            if c == "tuple":
                return ["tuple", [self.type(d - 1, True) for _ in range(r.randint(1, 3))]]
            if c == "vtuple":
                return ["vtuple", self.type(d - 1, True)]
            return ["frozenset", self.type(d - 1, True)]
        c = r.choice(["list", "deque", "seq", "mseq", "vtuple", "opt", "set", "frozenset", "aset", "dict", "odict",
                      "ddict", "mapping", "mmapping", "mproxy", "chainmap", "counter", "tuple", "utuple",
                      "ntuple", "tdict", "newtype", "stype", "alias695", "dc", "dc", "union", "final"])
        if c in ("list", "deque", "seq", "mseq", "vtuple", "opt"):
            return [c, self.type(d - 1)]
        if c in ("set", "frozenset", "aset"):
            return [c, self.type(d - 1, True)]
        if c in ("dict", "odict", "ddict", "mapping", "mmapping", "mproxy", "chainmap"):
            return [c, r.choice(STR_KEYS if self.str_keys_only else KEY_LEAVES), self.type(d - 1)]    # keys: types whose basic form is hashable
        if c == "counter":
            return [c, r.choice(STR_KEYS if self.str_keys_only else KEY_LEAVES)]
        if c == "tuple":
            return ["tuple", [self.type(d - 1) for _ in range(r.randint(1, 3))]]
        if c == "utuple":
            return ["utuple", [self.type(d - 1) for _ in range(r.randint(0, 2))], self.type(d - 1),
                    [self.type(d - 1) for _ in range(r.randint(0, 2))]]
        if c == "ntuple":
            n = r.randint(1, 3)
            fields = []
            defaults = False
            for i in range(n):
                t = self.type(d - 1)
                if defaults or r.random() < 0.3:
                    defaults = True
                    fields.append([f"n{i}", t, ["val", self.value(t)]])
                else:
                    fields.append([f"n{i}", t, ["req"]])
            return ["ntuple", self.fresh("NT"), fields]
        if c == "tdict":
            n = r.randint(1, 3)
            return ["tdict", self.fresh("TD"), [[f"k{i}", self.type(d - 1), r.random() < 0.6] for i in range(n)]]
        if c == "newtype":
            return ["newtype", self.fresh("NTy"), self.type(d - 1)]
        if c == "alias695":
            return ["alias695", self.fresh("TA"), self.type(d - 1)]
        if c == "stype":
            return ["stype", self.fresh("SW"), self.type(d - 1)]
        if c == "final":
            return self.type(d - 1)
        if c == "union":
            return self.union(d)
        return self.dataclass(d)

    def union(self, d):
        """unions whose members do not share a wire form (the statement's exclusion): members with
        pairwise different wire kinds"""
        r = self.r
        pool = [
            ("int", ["int"]), ("str", ["str"]), ("bool", ["bool"]), ("float", ["float"]), ("none", ["none"]),
            ("list", ["list", self.type(d - 1)]), ("dict", ["dict", ["str"], self.type(d - 1)]),
        ]
        r.shuffle(pool)
        k = r.randint(2, 4)
        members = [t for _, t in pool[:k]]
        return ["union", members]

    def dataclass(self, d, mixin=None):
        r = self.r
        n = r.randint(1, 4)
        fields = []
        need_default = False
        for i in range(n):
            t = self.type(d - 1)
            opts = []
            kw_only = r.random() < 0.15
            if kw_only:
                opts.append(["kw_only", True])
            if r.random() < 0.2:
                opts.append(["alias", f"al{i}"])
            p = r.random()
            if need_default and not kw_only or p < 0.35:
                if not kw_only:
                    need_default = True
                v = self.value(t)
                if r.random() < 0.5 or _mutable(v):
                    dflt = ["fac", v]
                else:
                    dflt = ["val", v]
            else:
                dflt = ["req"]
            fields.append([f"f{i}", t, dflt, opts])
        cfg = []
        if any(o[0] == "alias" for f in fields for o in f[3]):
            cfg.append(["serialize_by_alias", True])     # aliases without by-alias output discard keys on purpose
        if mixin is None:
            mixin = r.choice(["dict", "dict", "plain"])
        if mixin != "dict":
            cfg.append(["mixin", mixin])
        return ["dc", self.fresh("D"), fields, cfg]

    # ---------------- values
    def value(self, T):
        r = self.r
        tag = T[0]
        if tag == "int" and getattr(self, "small_ints", False):
            return ["int", r.choice([0, 1, -1, 42, -7, 100000, -99999, r.randint(-1000, 1000)])]      # (TLC integers are 32-bit: strategies add to them)
        if tag == "int":
            return ["int", r.choice([0, 1, -1, 42, -7, 2 ** 31 - 1, -(2 ** 31) + 1, r.randint(-10 ** 6, 10 ** 6)])]
        if tag == "float":
            return r.choice([["float", 0, 0], ["float", 15, -1], ["float", -225, -2], ["float", 1, 10], ["float", 5, -7],
                             ["float", 123456789, -4]])
        if tag == "bool":
            return ["bool", r.random() < 0.5]
        if tag == "str":
            return ["str", r.choice(["", "a", "h\"'\\ x\ny", "ünï", "1", "None", "UTC", "[1]", "x" * r.randint(2, 9)])]
        if tag == "none":
            return ["none"]
        if tag == "any":
            return r.choice([["int", 5], ["str", "z"], ["list", [["int", 1], ["str", "q"]]], ["none"],
                             ["dict", [[["str", "k"], ["list", []]]]], ["bool", True], ["float", 25, -1]])
        if tag in ("bytes", "bytearray"):
            n = r.choice([0, 1, 2, 3, 56, 57, 58, 114, 115, r.randint(4, 40)])
            return [tag, [r.randint(0, 255) for _ in range(n)]]
        if tag == "date":
            return ["date", r.choice([1, 1970, 2024, 9999]), r.randint(1, 12), r.randint(1, 28)]
        if tag == "time":
            return ["time", r.randint(0, 23), r.randint(0, 59), r.randint(0, 59), r.choice([0, 1, 500000, 999999, 120]),
                    self.tz()]
        if tag == "datetime":
            return ["datetime", r.choice([1, 1970, 2024, 9999]), r.randint(1, 12), r.randint(1, 28), r.randint(0, 23),
                    r.randint(0, 59), r.randint(0, 59), r.choice([0, 1, 500000, 999999, 120]), self.tz()]
        if tag == "timedelta":
            if r.random() < 0.5:
                return ["td", r.randint(-20000, 20000), r.randint(0, 86399), 0]
            s = r.randint(-2000, 2000)
            return ["td", -1 if s < 0 else 0, s % 86400 if s >= 0 else 86400 + s, r.choice([1, 500000, 999999, 250000])]
        if tag == "tz":
            return ["tz", r.choice([0, 30, -30, 345, -1439, 1439, -61, -1, 1, 60, -60, r.randint(-1439, 1439)])]
        if tag == "text":
            return ["text", T[1], r.choice(TEXT_POOL[T[1]])]
        if tag == "enum":
            return ["enum", T[1], r.choice(T[3])[0]]
        if tag in ("list", "seq", "mseq"):
            return ["list", [self.value(T[1]) for _ in range(r.randint(0, 3))]]
        if tag == "deque":
            return ["deque", [self.value(T[1]) for _ in range(r.randint(0, 3))]]
        if tag == "vtuple":
            return ["tuple", [self.value(T[1]) for _ in range(r.randint(0, 3))]]
        if tag in ("set", "aset", "frozenset"):
            vals = {}
            for _ in range(r.randint(0, 3)):
                v = self.value(T[1])
                vals[_pykey(v)] = v
            return ["frozenset" if tag == "frozenset" else "set", list(vals.values())]
        if tag == "tuple":
            return ["tuple", [self.value(t) for t in T[1]]]
        if tag == "utuple":
            return ["tuple", [self.value(t) for t in T[1]] + [self.value(T[2]) for _ in range(r.randint(0, 3))]
                    + [self.value(t) for t in T[3]]]
        if tag in ("dict", "mapping", "mmapping", "odict", "ddict", "mproxy"):
            vtag = {"dict": "dict", "mapping": "dict", "mmapping": "dict", "odict": "OrderedDict",
                    "ddict": "defaultdict", "mproxy": "mappingproxy"}[tag]
            return [vtag, self.pairs(T[1], T[2])]
        if tag == "counter":
            return ["Counter", [[k, ["int", r.randint(-2, 5)]] for k, _ in self.pairs(T[1], ["int"])]]
        if tag == "chainmap":
            return ["ChainMap", [["dict", self.pairs(T[1], T[2])] for _ in range(r.randint(1, 3))]]
        if tag == "ntuple":
            return ["nt", T[1], [self.value(f[1]) for f in T[2]]]
        if tag == "tdict":
            out = []
            for k, t, req in T[2]:
                if req or r.random() < 0.5:
                    out.append([["str", k], self.value(t)])
            r.shuffle(out)
            return ["dict", out]
        if tag == "opt":
            return ["none"] if r.random() < 0.3 else self.value(T[1])
        if tag == "union":
            return self.value(r.choice(T[1]))
        if tag in ("newtype", "alias695"):
            return self.value(T[2])
        if tag == "stype":
            return ["sobj", T[1], self.value(T[2])]
        if tag in ("final", "annotated"):
            return self.value(T[1])
        if tag == "literal":
            return r.choice(T[1])
        if tag == "dc":
            vals = []
            for f in T[2]:
                if f[2][0] != "req" and r.random() < 0.3:
                    vals.append(f[2][1])
                else:
                    vals.append(self.value(f[1]))
            return ["obj", T[1], vals]
        raise ValueError(T)

    def tz(self):
        r = self.r
        return ["naive"] if r.random() < 0.5 else ["off", r.choice([0, -30, 30, 345, -1439, 1439, -61, 60])]

    def pairs(self, K, V):
        out = {}
        for _ in range(self.r.randint(0, 3)):
            k = self.value(K)
            out[_pykey(k)] = [k, self.value(V)]
        return list(out.values())


def _mutable(v):
    return v[0] in ("list", "dict", "set", "deque", "OrderedDict", "defaultdict", "Counter", "ChainMap", "bytearray", "obj")


def _pykey(v):
    """Python-equality class of a hashable value term (so generated sets / dict keys do not collide:
    True == 1 == 1.0)"""
    if v[0] == "bool":
        return ("num", int(v[1]), 0)
    if v[0] == "int":
        return ("num", v[1], 0)
    if v[0] == "float":
        m, e = v[1], v[2]
        while e > 0:
            m *= 10
            e -= 1
        return ("num", m, e)
    if v[0] == "enum":
        return jkey(v)
    return jkey(v)


class Mutator:
    """foreign inputs derived from a wire form: replace / drop / duplicate one subterm"""

    GARBAGE = [["str", "garbage"], ["int", 7], ["none"], ["list", []], ["dict", []], ["bool", True], ["float", 15, -1],
               ["str", ""], ["list", [["int", 1], ["str", "a"]]], ["dict", [[["str", "zz"], ["int", 0]]]]]

    def __init__(self, seed):
        self.r = random.Random(seed * 7919 + 1)

    def paths(self, w, pre=()):
        yield pre
        if w[0] == "list":
            for i, e in enumerate(w[1]):
                yield from self.paths(e, pre + (("l", i),))
        elif w[0] == "dict":
            for i, (k, v) in enumerate(w[1]):
                yield from self.paths(v, pre + (("d", i),))

    def set_at(self, w, path, new):
        if not path:
            return new
        (kind, i), rest = path[0], path[1:]
        if kind == "l":
            items = list(w[1])
            if new is None and not rest:
                del items[i]
            else:
                items[i] = self.set_at(items[i], rest, new)
            return ["list", items]
        pairs = [list(p) for p in w[1]]
        if new is None and not rest:
            del pairs[i]
        else:
            pairs[i][1] = self.set_at(pairs[i][1], rest, new)
        return ["dict", pairs]

    def variants(self, wire, n):
        ps = list(self.paths(wire))
        out = []
        for _ in range(n):
            p = self.r.choice(ps)
            if p and self.r.random() < 0.3:
                out.append(self.set_at(wire, p, None))         # drop an element / a key
            else:
                out.append(self.set_at(wire, p, self.r.choice(self.GARBAGE)))
        return out
