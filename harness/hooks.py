"""Reference hooks installed on generated classes (C19).  They are fixed, observable transformations of the
identifying first field "n" and they log every call into reg.hook_log -- translation of the hook terms of
spec/ref/Pack.tla (HooksOf), no expectations."""
from __future__ import annotations

import dataclasses


def add_hooks(ns, name, hooks, reg):
    hooks = set(hooks)
    log = reg.hook_log

    def same_ctx(context):
        return context is not None and context is getattr(reg, "ctx_obj", None)

    if "pre_ser" in hooks:
        def __pre_serialize__(self, context=None):
            log.append(["pre_ser", name, getattr(self, "n", -1), same_ctx(context)])
            return dataclasses.replace(self, n=self.n + 1) if isinstance(getattr(self, "n", None), int) else self
        ns["__pre_serialize__"] = __pre_serialize__
    if "post_ser" in hooks:
        def __post_serialize__(self, d, context=None):
            n = d.get("n", -1) if isinstance(d, dict) else -1
            log.append(["post_ser", name, n if isinstance(n, int) else -1, same_ctx(context)])
            d = dict(d)
            if isinstance(d.get("n"), int) and not isinstance(d.get("n"), bool):
                d["n"] = d["n"] * 10
            return d
        ns["__post_serialize__"] = __post_serialize__
    if "pre_deser" in hooks:
        def __pre_deserialize__(cls, d):
            n = d.get("n", -1) if isinstance(d, dict) else -1
            log.append(["pre_deser", name, n if isinstance(n, int) and not isinstance(n, bool) else -1, False])
            if isinstance(d, dict):
                d = dict(d)
                if isinstance(d.get("n"), int) and not isinstance(d.get("n"), bool):
                    d["n"] = d["n"] + 2
            return d
        ns["__pre_deserialize__"] = classmethod(__pre_deserialize__)
    if "post_deser" in hooks:
        def __post_deserialize__(cls, obj):
            n = getattr(obj, "n", -1)
            log.append(["post_deser", name, n if isinstance(n, int) else -1, False])
            return dataclasses.replace(obj, n=obj.n * 3) if isinstance(n, int) else obj
        ns["__post_deserialize__"] = classmethod(__post_deserialize__)
