"""Bridge between the TLA+ term language (spec/ref/Terms.tla) and real Python objects.

This module contains NO expectations: it only translates.
  concretize_type(term, reg)   type term  -> real annotation (classes created on the fly)
  concretize_value(term, reg)  value term -> real Python value
  abstract_value(x, reg)       real value -> value term (uses exact type(x), never isinstance)
  canon(term)                  canonical form (set nodes sorted) for comparisons / hashing

Terms are JSON arrays (lists); tuples never appear.
"""
from __future__ import annotations

import collections
import dataclasses
import datetime as dt
import decimal
import enum
import fractions
import ipaddress
import json
import math
import pathlib
import re
import sys
import types
import typing
import uuid
import zoneinfo
from typing import Any

_counter = [0]

TEXT_KINDS = {
    "uuid": uuid.UUID,
    "decimal": decimal.Decimal,
    "fraction": fractions.Fraction,
    "ipv4addr": ipaddress.IPv4Address,
    "ipv6addr": ipaddress.IPv6Address,
    "ipv4net": ipaddress.IPv4Network,
    "ipv6net": ipaddress.IPv6Network,
    "ipv4if": ipaddress.IPv4Interface,
    "ipv6if": ipaddress.IPv6Interface,
    "pureposixpath": pathlib.PurePosixPath,
    "purewindowspath": pathlib.PureWindowsPath,
    "posixpath": pathlib.PosixPath,
    "zoneinfo": zoneinfo.ZoneInfo,
    "pattern": re.Pattern,
}
TEXT_CTOR = dict(TEXT_KINDS)
TEXT_CTOR["pattern"] = re.compile
TEXT_BY_CLASS = {v: k for k, v in TEXT_KINDS.items()}


def text_of(kind: str, x: Any) -> str:
    if kind == "pattern":
        return x.pattern
    if kind in ("pureposixpath", "purewindowspath", "posixpath"):
        return x.__fspath__()
    return str(x)


class BridgeError(Exception):
    """The term is outside the grammar the bridge supports (machinery problem, never a violation)."""


def jkey(term: Any) -> str:
    return json.dumps(term, sort_keys=True, ensure_ascii=True, separators=(",", ":"))


def canon(t: Any) -> Any:
    """Canonical form: 'set'/'frozenset'/'bag' nodes get their elements sorted by canonical JSON."""
    if isinstance(t, (list, tuple)):
        if len(t) == 2 and t[0] in ("set", "frozenset", "bag") and isinstance(t[1], (list, tuple)):
            elems = [canon(e) for e in t[1]]
            uniq = {}
            for e in elems:
                uniq.setdefault(jkey(e), e)
            if t[0] == "bag":
                return [t[0], sorted(elems, key=jkey)]
            return [t[0], [uniq[k] for k in sorted(uniq)]]
        return [canon(e) for e in t]
    return t


def get_opt(opts, key, default=None):
    for o in opts:
        if o[0] == key:
            return o[1] if len(o) > 1 else True
    return default


class Registry:
    """Per-vector universe of created classes (fresh classes per behaviour => no history leaks)."""

    def __init__(self, mixin_factory=None, label: str = ""):
        _counter[0] += 1
        self.modname = f"mverif_u{_counter[0]}"
        self.module = types.ModuleType(self.modname)
        sys.modules[self.modname] = self.module
        self.by_def: dict[str, Any] = {}
        self.term_name: dict[Any, str] = {}   # class -> name used in terms
        self.by_name: dict[str, Any] = {}     # term name -> class (last defined)
        self.defs: dict[Any, Any] = {}        # class -> type term
        self.used_pynames: set[str] = set()
        self.mixin_factory = mixin_factory    # callable(kind) -> base class
        self.hook_log: list = []
        self.pending_fwd: list = []

    def close(self):
        sys.modules.pop(self.modname, None)
        for m in getattr(self, "submodules", {}).values():
            sys.modules.pop(m.__name__, None)

    def submodule(self, suffix: str):
        """a second TOP-LEVEL module of this universe (classes placed there are foreign to the classes that refer to them)"""
        if not hasattr(self, "submodules"):
            self.submodules = {}
        if suffix not in self.submodules:
            m = types.ModuleType(f"{self.modname}_{suffix}")
            sys.modules[m.__name__] = m
            self.submodules[suffix] = m
        return self.submodules[suffix]

    def _pyname(self, name: str) -> str:
        base = re.sub(r"\W", "_", name) or "_"
        cand = base
        i = 1
        while cand in self.used_pynames:
            i += 1
            cand = f"{base}_{i}"
        self.used_pynames.add(cand)
        return cand

    def _register(self, cls, name, term, module=None):
        mod = self.submodule(module) if module else self.module
        cls.__module__ = mod.__name__
        setattr(mod, cls.__name__, cls)
        self.term_name[cls] = name
        self.by_name[name] = cls
        self.defs[cls] = term


# --------------------------------------------------------------------------- types

def _stype_class(term, reg: Registry):
    """<<"stype", name, A>>: a user class implementing SerializableType(use_annotations=True) around ONE value of type A"""
    key = jkey(term)
    if key in reg.by_def:
        return reg.by_def[key]
    from mashumaro.types import SerializableType
    inner = concretize_type(term[2], reg)
    pyname = reg._pyname(term[1])

    def __init__(self, x):
        self.x = x

    def __eq__(self, other):
        return type(other) is type(self) and other.x == self.x

    def __hash__(self):
        return hash((type(self).__name__, self.x))

    def __repr__(self):
        return f"{type(self).__name__}({self.x!r})"

    def _serialize(self):
        return self.x

    def _deserialize(cls, value):
        return cls(value)
    _serialize.__annotations__ = {"return": inner}
    _deserialize.__annotations__ = {"value": inner}
    ns = {"__module__": reg.modname, "__qualname__": pyname, "__init__": __init__, "__eq__": __eq__, "__hash__": __hash__, "__repr__": __repr__,
          "_serialize": _serialize, "_deserialize": classmethod(_deserialize)}
    import types as _types
    cls = _types.new_class(pyname, (SerializableType,), {"use_annotations": True}, lambda n: n.update(ns))
    reg.by_def[key] = cls
    reg._register(cls, term[1], term)
    reg.stypes = getattr(reg, "stypes", set()) | {cls}
    return cls


def _enum_class(term, reg: Registry):
    key = jkey(term)
    if key in reg.by_def:
        return reg.by_def[key]
    _, name, kind, members = term[:4]
    base = {"Enum": enum.Enum, "IntEnum": enum.IntEnum, "StrEnum": enum.StrEnum,
            "Flag": enum.Flag, "IntFlag": enum.IntFlag}[kind]
    pyname = reg._pyname(name)
    emod = get_opt(term[4], "module") if len(term) > 4 else None
    catch = get_opt(term[4], "missing") if len(term) > 4 else None
    if catch is not None:
        # an enum class with a _missing_ hook: every unknown value becomes the member `catch`
        import types as _types
        ns_members = [(m[0], concretize_value(m[1], reg)) for m in members]

        def _body(ns, _ms=ns_members, _c=catch):
            for k_, v_ in _ms:
                ns[k_] = v_
            ns["_missing_"] = classmethod(lambda cls_, value, _c=_c: cls_[_c])
            ns["__module__"] = reg.submodule(emod).__name__ if emod else reg.modname
        cls = _types.new_class(pyname, (base,), {}, _body)
        cls.__qualname__ = pyname
        reg.by_def[key] = cls
        reg._register(cls, name, term, module=emod)
        return cls
    cls = base(pyname, [(m[0], concretize_value(m[1], reg)) for m in members], module=reg.submodule(emod).__name__ if emod else reg.modname)
    cls.__qualname__ = pyname
    reg.by_def[key] = cls
    reg._register(cls, name, term, module=emod)
    return cls


def _ntuple_class(term, reg: Registry):
    key = jkey(term)
    if key in reg.by_def:
        return reg.by_def[key]
    _, name, fields = term[:3]
    pyname = reg._pyname(name)
    ns: dict[str, Any] = {"__annotations__": {}}
    ann = {}
    defaults = {}
    for f in fields:
        ann[f[0]] = concretize_type(f[1], reg)
        if f[2][0] == "val":
            defaults[f[0]] = concretize_value(f[2][1], reg)
    cls = typing.NamedTuple(pyname, list(ann.items()))
    if defaults:
        # NamedTuple functional API has no defaults: rebuild through class syntax semantics
        ns = {"__annotations__": ann, "__module__": reg.modname, "__qualname__": pyname, **defaults}
        cls = types.new_class(pyname, (typing.NamedTuple,), {}, lambda n: n.update(ns))
    cls.__qualname__ = pyname
    cls.__name__ = pyname
    reg.by_def[key] = cls
    reg._register(cls, name, term)
    return cls


def _tdict_class(term, reg: Registry):
    key = jkey(term)
    if key in reg.by_def:
        return reg.by_def[key]
    _, name, fields = term[:3]
    pyname = reg._pyname(name)
    ann = {}
    for f in fields:
        t = concretize_type(f[1], reg)
        ann[f[0]] = typing.Required[t] if f[2] else typing.NotRequired[t]
    cls = typing.TypedDict(pyname, ann)
    cls.__qualname__ = pyname
    reg.by_def[key] = cls
    reg._register(cls, name, term)
    return cls


def _dc_class(term, reg: Registry):
    key = jkey(term)
    if key in reg.by_def:
        return reg.by_def[key]
    from harness import classes  # late import: needs mashumaro
    gen = get_opt(term[3], "generic") if len(term) > 3 else None
    if gen:
        # Box[args]: the generic class is built ONCE per universe from the template fields (annotations mention the TypeVars),
        # the term stands for the subscripted alias -- built without typing's cache, so Box[Union[A, B]] and Box[Union[B, A]] stay distinct
        params, args, tfields = gen
        tmap = {f[0]: f[1] for f in tfields}
        tcfg = [o for o in term[3] if o[0] != "generic"] + [["generic_params", list(params)]]
        tterm = ["dc", term[1], [[f[0], tmap.get(f[0], f[1])] + list(f[2:]) for f in term[2]], tcfg]
        template = _dc_class(tterm, reg)
        alias = generic_subscript(template, tuple(concretize_type(a, reg) for a in args))
        reg.by_def[key] = alias
        return alias
    cls = classes.build_dataclass(term, reg)
    reg.by_def[key] = cls
    # classes referred to by forward references are defined only now (postponed evaluation of the referring class)
    # (a behaviour replay that defines the referred class at a step of its own sets reg.defer_fwd)
    while reg.pending_fwd and not getattr(reg, "defer_fwd", False):
        concretize_type(reg.pending_fwd.pop(0), reg)
    return cls


def make_union(args):
    """typing.Union[...] WITHOUT typing's lru cache: Union[A, B] == Union[B, A], so the cache hands back whichever
    order was created first in the process -- the bridge must build exactly the declared member order."""
    flat = []
    for a in args:
        if isinstance(a, str):
            a = typing.ForwardRef(a)          # what typing.Union[...] itself does with a string argument
        if typing.get_origin(a) is typing.Union:
            flat.extend(typing.get_args(a))
        else:
            flat.append(a)
    out = []
    for a in flat:
        if not any(a is b or (a == b and type(a) is type(b)) for b in out):
            out.append(a)
    if len(out) == 1:
        return out[0]
    return typing._UnionGenericAlias(typing.Union, tuple(out))


def subscript(generic, params):
    """generic[params] WITHOUT typing's lru cache (List[Union[A, B]] == List[Union[B, A]] would otherwise come back
    in whichever order was built first in this process)"""
    getitem = type(generic).__getitem__
    raw = getattr(getitem, "__wrapped__", None)
    if raw is not None:
        try:
            return raw(generic, params)
        except TypeError:
            pass
    return generic[params]


def generic_subscript(cls, params):
    """cls[params] for a user-defined Generic class, bypassing typing's cache (see subscript)"""
    arg = params if len(params) != 1 else params[0]
    raw = getattr(getattr(typing, "_generic_class_getitem", None), "__wrapped__", None)          # Python >= 3.12
    if raw is None:
        raw = getattr(getattr(cls.__class_getitem__, "__func__", None), "__wrapped__", None)     # older: classmethod around the cached function
    if raw is None:
        raise BridgeError("cannot subscript a generic class without typing's cache on this Python")
    return raw(cls, arg)


def concretize_type(t, reg: Registry):
    tag = t[0]
    if tag == "tvar":
        if not hasattr(reg, "typevars"):
            reg.typevars = {}
        return reg.typevars.setdefault(t[1], typing.TypeVar(t[1]))
    simple = {
        "int": int, "float": float, "bool": bool, "str": str, "none": type(None), "any": Any,
        "bytes": bytes, "bytearray": bytearray, "datetime": dt.datetime, "date": dt.date,
        "time": dt.time, "timedelta": dt.timedelta, "tz": dt.timezone,
    }
    if tag in simple:
        return simple[tag]
    if tag == "text":
        return TEXT_KINDS[t[1]]
    if tag in ("enum", "flag"):
        return _enum_class(t, reg)
    if tag == "literal":
        vals = []
        for c in t[1]:
            if c[0] == "lenum":
                vals.append(_enum_class(c[1], reg)[c[2]])
            else:
                vals.append(concretize_value(c, reg))
        return typing.Literal[tuple(vals)]
    one = {
        "list": typing.List, "set": typing.Set, "frozenset": typing.FrozenSet, "deque": typing.Deque,
        "seq": typing.Sequence, "mseq": typing.MutableSequence, "aset": typing.AbstractSet,
    }
    if tag in one:
        if getattr(reg, "pep585", False) and tag in ("list", "set", "frozenset"):
            # PEP 585: the builtin class itself subscripted (list[X]); its __module__ is "builtins"
            return {"list": list, "set": set, "frozenset": frozenset}[tag][concretize_type(t[1], reg)]
        return subscript(one[tag], concretize_type(t[1], reg))
    if tag == "vtuple":
        return subscript(typing.Tuple, (concretize_type(t[1], reg), ...))
    if tag == "tuple":
        if not t[1]:
            return typing.Tuple[()]
        if getattr(reg, "pep585", False):
            return tuple[tuple(concretize_type(e, reg) for e in t[1])]
        return subscript(typing.Tuple, tuple(concretize_type(e, reg) for e in t[1]))
    if tag == "utuple":
        pre = [concretize_type(e, reg) for e in t[1]]
        mid = concretize_type(t[2], reg)
        post = [concretize_type(e, reg) for e in t[3]]
        return subscript(typing.Tuple, (*pre, typing.Unpack[subscript(typing.Tuple, (mid, ...))], *post))
    if tag == "ustar":
        pre = [concretize_type(e, reg) for e in t[1]]
        mid = concretize_type(t[2], reg)
        post = [concretize_type(e, reg) for e in t[3]]
        return tuple[(*pre, *tuple[mid, ...], *post)]
    two = {
        "dict": typing.Dict, "odict": typing.OrderedDict, "ddict": typing.DefaultDict,
        "mapping": typing.Mapping, "mmapping": typing.MutableMapping, "chainmap": typing.ChainMap,
    }
    if tag in two:
        if getattr(reg, "pep585", False) and tag == "dict":
            return dict[concretize_type(t[1], reg), concretize_type(t[2], reg)]
        return subscript(two[tag], (concretize_type(t[1], reg), concretize_type(t[2], reg)))
    if tag == "mproxy":
        return types.MappingProxyType[concretize_type(t[1], reg), concretize_type(t[2], reg)]
    if tag == "counter":
        return subscript(typing.Counter, concretize_type(t[1], reg))
    if tag == "ntuple":
        return _ntuple_class(t, reg)
    if tag == "tdict":
        return _tdict_class(t, reg)
    if tag == "opt":
        return make_union([concretize_type(t[1], reg), type(None)])
    if tag == "union":
        return make_union([concretize_type(e, reg) for e in t[1]])
    if tag == "newtype":
        key = jkey(t)
        if key not in reg.by_def:
            nt = typing.NewType(reg._pyname(t[1]), concretize_type(t[2], reg))
            nt.__module__ = reg.modname
            setattr(reg.module, nt.__name__, nt)
            reg.by_def[key] = nt
        return reg.by_def[key]
    if tag == "stype":
        return _stype_class(t, reg)
    if tag == "recref":
        return reg.rec_alias[t[1]]
    if tag == "rec695":
        key = jkey(t[:3])
        if key not in reg.by_def:
            # `type Tree = Leaf | list[Tree]`: the value of a PEP 695 alias is evaluated lazily, so it may mention the alias itself
            pyname = reg._pyname(t[1])
            if not hasattr(reg, "rec_alias"):
                reg.rec_alias = {}
            reg.module.__dict__[pyname + "__value"] = lambda _b=t[2], _r=reg: concretize_type(_b, _r)
            exec(f"type {pyname} = {pyname}__value()", reg.module.__dict__)
            alias = reg.module.__dict__[pyname]
            reg.rec_alias[t[1]] = alias
            reg.by_def[key] = alias
            alias.__value__                      # (evaluate now: the classes named in the body are built with this universe)
        return reg.by_def[key]
    if tag == "alias695":
        key = jkey(t)
        if key not in reg.by_def:
            # a real `type Name = T` statement executed in the universe's module (the alias is bound there under its name)
            pyname = reg._pyname(t[1])
            reg.module.__dict__[pyname + "__value"] = concretize_type(t[2], reg)
            exec(f"type {pyname} = {pyname}__value", reg.module.__dict__)
            reg.by_def[key] = reg.module.__dict__[pyname]
        return reg.by_def[key]
    if tag == "final":
        return typing.Final[concretize_type(t[1], reg)]
    if tag == "annotated":
        return typing.Annotated[concretize_type(t[1], reg), t[2] if len(t) > 2 else "verif-annotation"]
    if tag == "dc":
        return _dc_class(t, reg)
    if tag in ("tvarc", "tvarb"):
        # a TypeVar with constraints (meaning: the union of the constraints, in order) / with a bound (meaning: the bound)
        if not hasattr(reg, "typevars"):
            reg.typevars = {}
        key = jkey(t)
        if key not in reg.typevars:
            if tag == "tvarc":
                reg.typevars[key] = typing.TypeVar(t[1], *[concretize_type(m, reg) for m in t[2][1]])
            else:
                reg.typevars[key] = typing.TypeVar(t[1], bound=concretize_type(t[2], reg))
        return reg.typevars[key]
    if tag == "fwd" and t[1] == "#self":
        return typing.Self                # <<"fwd", "#self", U>>: the annotation typing.Self (U is its unfolded meaning, spec side only)
    if tag == "fwd":
        # forward reference: the annotation is the NAME; the class is defined after the class that refers to it
        reg.pending_fwd.append(t[2])
        return t[1]
    if tag == "discr":
        base = concretize_type(t[1], reg)
        return typing.Annotated[base, make_discriminator(t[2], reg)]
    raise BridgeError(f"unsupported type term {t!r}")


def make_discriminator(opts, reg):
    """a Discriminator object from its option list; <<"shared", key>> means ONE object per universe and key -- a project-wide
    constant used at several positions (a Config.discriminator here, an Annotated position there)"""
    from mashumaro.types import Discriminator
    d = {o[0]: o[1] for o in opts}
    key = d.get("shared")
    if key is not None:
        if not hasattr(reg, "shared_discr"):
            reg.shared_discr = {}
        if key in reg.shared_discr:
            return reg.shared_discr[key]
    extra = {}
    if d.get("tagger") in ("one", "two"):
        # variant_tagger_fn: "t_" + the class's term name (and "u_" + name as a second tag for "two")
        def tagger(cls, _reg=reg, _two=d.get("tagger") == "two"):
            n = _reg.term_name.get(cls, cls.__name__)
            return ["t_" + n, "u_" + n] if _two else "t_" + n
        extra["variant_tagger_fn"] = tagger
    obj = Discriminator(field=d.get("field"), include_subtypes=bool(d.get("include_subtypes", False)),
                        include_supertypes=bool(d.get("include_supertypes", False)), **extra)
    if key is not None:
        reg.shared_discr[key] = obj
    return obj


# --------------------------------------------------------------------------- values

def _tzinfo(tz):
    if tz[0] == "naive":
        return None
    if tz[0] == "off":
        return dt.timezone(dt.timedelta(minutes=tz[1]))
    raise BridgeError(f"unsupported tz {tz!r}")


def float_of(m, e) -> float:
    return float(decimal.Decimal(int(m)).scaleb(e))


def concretize_value(v, reg: Registry):
    tag = v[0]
    if tag == "int":
        return int(v[1])
    if tag == "bigint":
        return int(v[1])
    if tag == "float":
        return float_of(v[1], v[2])
    if tag == "bigfloat":
        return float_of(v[1], v[2])
    if tag == "fspecial":
        return float(v[1])
    if tag == "bool":
        return bool(v[1])
    if tag == "str":
        return v[1]
    if tag == "none":
        return None
    if tag == "bytes":
        return bytes(v[1])
    if tag == "bytearray":
        return bytearray(v[1])
    if tag == "date":
        return dt.date(v[1], v[2], v[3])
    if tag == "time":
        return dt.time(v[1], v[2], v[3], v[4], tzinfo=_tzinfo(v[5]))
    if tag == "datetime":
        return dt.datetime(v[1], v[2], v[3], v[4], v[5], v[6], v[7], tzinfo=_tzinfo(v[8]))
    if tag == "td":
        return dt.timedelta(days=v[1], seconds=v[2], microseconds=v[3])
    if tag == "tz":
        return dt.timezone(dt.timedelta(minutes=v[1]))
    if tag == "text":
        return TEXT_CTOR[v[1]](v[2])
    if tag == "enum":
        return reg.by_name[v[1]][v[2]]
    if tag == "flag":
        return reg.by_name[v[1]](v[2])
    if tag == "list":
        return [concretize_value(e, reg) for e in v[1]]
    if tag == "tuple":
        return tuple(concretize_value(e, reg) for e in v[1])
    if tag == "deque":
        return collections.deque(concretize_value(e, reg) for e in v[1])
    if tag == "set":
        return {concretize_value(e, reg) for e in v[1]}
    if tag == "frozenset":
        return frozenset(concretize_value(e, reg) for e in v[1])
    if tag == "dict":
        return {concretize_value(k, reg): concretize_value(x, reg) for k, x in v[1]}
    if tag == "OrderedDict":
        return collections.OrderedDict((concretize_value(k, reg), concretize_value(x, reg)) for k, x in v[1])
    if tag == "defaultdict":
        return collections.defaultdict(None, {concretize_value(k, reg): concretize_value(x, reg) for k, x in v[1]})
    if tag == "Counter":
        return collections.Counter({concretize_value(k, reg): concretize_value(x, reg) for k, x in v[1]})
    if tag == "mappingproxy":
        return types.MappingProxyType({concretize_value(k, reg): concretize_value(x, reg) for k, x in v[1]})
    if tag == "ChainMap":
        return collections.ChainMap(*[concretize_value(m, reg) for m in v[1]])
    if tag == "nt":
        return reg.by_name[v[1]](*[concretize_value(e, reg) for e in v[2]])
    if tag == "sobj":
        return reg.by_name[v[1]](concretize_value(v[2], reg))
    if tag == "obj":
        cls = reg.by_name[v[1]]
        fields = dataclasses.fields(cls)
        vals = [concretize_value(e, reg) for e in v[2]]
        if len(vals) != len(fields):
            raise BridgeError(f"obj arity mismatch for {v[1]}")
        kwargs = {f.name: x for f, x in zip(fields, vals) if f.init}
        obj = cls(**kwargs)
        for f, x in zip(fields, vals):
            if not f.init:
                object.__setattr__(obj, f.name, x)
        return obj
    raise BridgeError(f"unsupported value term {v!r}")


_MAXI = 2 ** 31


def abstract_float(x: float):
    if math.isnan(x):
        return ["fspecial", "nan"]
    if math.isinf(x):
        return ["fspecial", "inf" if x > 0 else "-inf"]
    d = decimal.Decimal(repr(x))
    sign, digits, exp = d.as_tuple()
    m = int("".join(map(str, digits)))
    if m == 0:
        return ["float", 0, 0]
    while m % 10 == 0:
        m //= 10
        exp += 1
    if sign:
        m = -m
    if abs(m) < _MAXI and abs(exp) < 400:
        return ["float", m, exp]
    return ["bigfloat", str(m), exp]


def _abs_tz(tzinfo, ref=None):
    if tzinfo is None:
        return ["naive"]
    off = tzinfo.utcoffset(ref)
    if off is None:
        return ["tzother", repr(tzinfo)]
    secs = off.total_seconds()
    if type(tzinfo) is not dt.timezone or secs % 60 != 0:
        return ["tzother", repr(tzinfo)]
    return ["off", int(secs // 60)]


def abstract_value(x, reg: Registry | None = None):
    t = type(x)
    if x is None:
        return ["none"]
    if t is bool:
        return ["bool", x]
    if t is int:
        return ["int", x] if abs(x) < _MAXI else ["bigint", str(x)]
    if t is float:
        return abstract_float(x)
    if t is str:
        return ["str", x]
    if t is bytes:
        return ["bytes", list(x)]
    if t is bytearray:
        return ["bytearray", list(x)]
    if t is dt.datetime:
        return ["datetime", x.year, x.month, x.day, x.hour, x.minute, x.second, x.microsecond,
                _abs_tz(x.tzinfo, x)]
    if t is dt.date:
        return ["date", x.year, x.month, x.day]
    if t is dt.time:
        return ["time", x.hour, x.minute, x.second, x.microsecond, _abs_tz(x.tzinfo, None)]
    if t is dt.timedelta:
        return ["td", x.days, x.seconds, x.microseconds]
    if t is dt.timezone:
        secs = x.utcoffset(None).total_seconds()
        if secs % 60 == 0 and x.tzname(None).startswith("UTC"):
            return ["tz", int(secs // 60)]
        return ["tzother", repr(x)]
    if t in TEXT_BY_CLASS:
        k = TEXT_BY_CLASS[t]
        return ["text", k, text_of(k, x)]
    if t is list:
        return ["list", [abstract_value(e, reg) for e in x]]
    if t is tuple:
        return ["tuple", [abstract_value(e, reg) for e in x]]
    if t is collections.deque:
        return ["deque", [abstract_value(e, reg) for e in x]]
    if t is set or t is frozenset:
        return canon(["set" if t is set else "frozenset", [abstract_value(e, reg) for e in x]])
    if t is dict:
        return ["dict", [[abstract_value(k, reg), abstract_value(e, reg)] for k, e in x.items()]]
    if t is collections.OrderedDict:
        return ["OrderedDict", [[abstract_value(k, reg), abstract_value(e, reg)] for k, e in x.items()]]
    if t is collections.defaultdict:
        return ["defaultdict", [[abstract_value(k, reg), abstract_value(e, reg)] for k, e in x.items()]]
    if t is collections.Counter:
        return ["Counter", [[abstract_value(k, reg), abstract_value(e, reg)] for k, e in x.items()]]
    if t is types.MappingProxyType:
        return ["mappingproxy", [[abstract_value(k, reg), abstract_value(e, reg)] for k, e in x.items()]]
    if t is collections.ChainMap:
        return ["ChainMap", [abstract_value(m, reg) for m in x.maps]]
    if reg is not None and t in reg.term_name:
        name = reg.term_name[t]
        if t in getattr(reg, "stypes", ()):
            return ["sobj", name, abstract_value(x.x, reg)]
        if isinstance(x, enum.Flag):
            return ["flag", name, int(x.value)]
        if isinstance(x, enum.Enum):
            return ["enum", name, x.name]
        if dataclasses.is_dataclass(t):
            vals = []
            for f in dataclasses.fields(t):
                try:
                    vals.append(abstract_value(getattr(x, f.name), reg))
                except AttributeError:
                    vals.append(["unset"])
            return ["obj", name, vals]
        if issubclass(t, tuple):
            return ["nt", name, [abstract_value(e, reg) for e in x]]
    return ["pyobj", f"{t.__module__}.{t.__qualname__}", repr(x)[:200]]


# ---- comparison of an expected wire term (may contain "bag" nodes) with an observed one
def wire_match(exp, act) -> bool:
    if isinstance(exp, list) and len(exp) == 2 and exp[0] == "bag":
        if not (isinstance(act, list) and len(act) == 2 and act[0] == "list"):
            return False
        rest = list(act[1])
        if len(rest) != len(exp[1]):
            return False
        for e in exp[1]:
            for i, a in enumerate(rest):
                if wire_match(e, a):
                    del rest[i]
                    break
            else:
                return False
        return True
    if isinstance(exp, list) and isinstance(act, list):
        return len(exp) == len(act) and all(wire_match(e, a) for e, a in zip(exp, act))
    if isinstance(exp, bool) or isinstance(act, bool):
        return type(exp) is type(act) and exp == act
    return exp == act


def eqform(t):
    """Python-equality form: plain mappings compare regardless of insertion order"""
    if isinstance(t, list):
        if len(t) == 2 and t[0] in ("dict", "defaultdict", "Counter", "mappingproxy") and isinstance(t[1], list):
            return [t[0], sorted(([eqform(k), eqform(v)] for k, v in t[1]), key=jkey)]
        return [eqform(e) for e in t]
    return t


def terms_pyeq(a, b) -> bool:
    return jkey(eqform(canon(a))) == jkey(eqform(canon(b)))


def terms_equal(a, b) -> bool:
    return jkey(canon(a)) == jkey(canon(b))
