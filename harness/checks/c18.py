"""C18: no hidden sharing or mutation."""
from __future__ import annotations

import collections
import copy
import dataclasses
import hashlib
import json
import multiprocessing as mp

from harness import tlc
from harness.report import Report
from harness.terms import canon, jkey, wire_match

MUTABLE = (list, dict, set, collections.deque, bytearray)      # dict covers OrderedDict / defaultdict / Counter


def in_paths(x, pre, acc):
    """path -> id of every mutable container inside the argument (dataclass field index / list index / position of a mapping value)"""
    if isinstance(x, MUTABLE):
        acc[pre] = id(x)
    if dataclasses.is_dataclass(x) and not isinstance(x, type):
        for i, f in enumerate(dataclasses.fields(x), 1):
            in_paths(getattr(x, f.name), pre + (i,), acc)
    elif isinstance(x, (list, tuple, collections.deque)):
        for i, e in enumerate(x, 1):
            in_paths(e, pre + (i,), acc)
    elif isinstance(x, dict):
        for i, e in enumerate(x.values(), 1):
            in_paths(e, pre + (i,), acc)
    elif hasattr(type(x), "_serialize") and hasattr(x, "x"):
        in_paths(x.x, pre + (1,), acc)               # the value a SerializableType wrapper of the bridge holds
    elif isinstance(x, collections.ChainMap):
        acc[pre + ("maps",)] = id(x.maps)             # the ChainMap's own list of maps is a mutable container of the argument too
        for i, m in enumerate(x.maps, 1):
            in_paths(m, pre + ("maps", i), acc)
    return acc


def all_ids(x, acc):
    if isinstance(x, MUTABLE):
        acc.add(id(x))
    if dataclasses.is_dataclass(x) and not isinstance(x, type):
        for f in dataclasses.fields(x):
            all_ids(getattr(x, f.name), acc)
    elif isinstance(x, (list, tuple, collections.deque, set, frozenset)):
        for e in x:
            all_ids(e, acc)
    elif isinstance(x, dict):
        for k, e in x.items():
            all_ids(e, acc)
    return acc


def _run(rec):
    from harness.real import Subject
    from harness.terms import abstract_value, concretize_value
    _, T, v, wire_exp, shared_exp, any_paths = rec[:6]
    prior, dterm = (rec[6], rec[7]) if len(rec) > 6 else ("fresh", [])
    out = {"n": 1, "mism": [], "rec": rec}
    subj = Subject(T)
    try:
        x = concretize_value(v, subj.reg)
        before = copy.deepcopy(x)
        if prior == "fresh":
            w = subj.encode_py(x)
        elif prior == "nocopy":
            # the FIRST call passes a dialect with no_copy_collections; the judged call is the plain one afterwards
            x.to_dict(dialect=subj.dialect_for(dterm))
            w = x.to_dict()
        else:
            # the same dialect object is first used through the binary format, then through to_dict
            D = subj.dialect_for(dterm)
            (x.to_msgpack if prior == "msgpack" else x.to_jsonb)(dialect=D)
            w = x.to_dict(dialect=D)
        if x != before:
            out["mism"].append({"clause": "argument-mutated", "T": T, "input": v, "expected": "argument unchanged", "actual": abstract_value(x, subj.reg)})
        w_act = abstract_value(w, subj.reg)
        if not wire_match(canon(wire_exp), w_act):
            out["mism"].append({"clause": "wire", "T": T, "input": v, "expected": wire_exp, "actual": w_act})
        ids_out = all_ids(w, set())
        paths = in_paths(x, (), {})
        excepted = {tuple(p) for p in any_paths}
        real = {p for p, i in paths.items() if i in ids_out and p not in excepted}
        exp = {tuple(p) for p in shared_exp if tuple(p) not in excepted}
        if real - exp:
            out["mism"].append({"clause": "hidden-sharing", "T": T, "input": v, "expected": sorted(map(str, exp)), "actual": sorted(map(str, real))})
        if exp - real:
            out["mism"].append({"clause": "promised-sharing-missing", "T": T, "input": v, "expected": sorted(map(str, exp)), "actual": sorted(map(str, real))})
        # deserialization: no typed container shared with the input, input not mutated
        if '"no_copy"' not in json.dumps(T) and prior == "fresh":
            d = copy.deepcopy(w)
            d0 = copy.deepcopy(d)
            y = subj.decode_py(d)
            if d != d0:
                out["mism"].append({"clause": "input-mutated", "T": T, "input": v, "expected": "input unchanged", "actual": "changed"})
            # typed containers of the result (everything that is not at / below an Any position) are never objects of the input
            ids_in = all_ids(d, set())
            shared_out = {p for p, i in in_paths(y, (), {}).items() if i in ids_in}
            bad = [p for p in shared_out if not any(p[: len(a)] == a for a in excepted)]
            if bad:
                out["mism"].append({"clause": "decode-shares-input", "T": T, "input": v, "expected": [], "actual": sorted(map(str, bad))})
            out["n"] += 1
    except Exception as e:  # noqa: BLE001
        out["mism"].append({"clause": "raises", "T": T, "input": v, "expected": wire_exp, "actual": ["exc", type(e).__name__, str(e)[:200]]})
    finally:
        subj.close()
    return out


def run(prop, tier, seed):
    rep = Report("C18", tier, seed)
    wd = tlc.scratch()
    r = tlc.run_tlc("MC_C18", workdir=wd, workers=16, timeout=3000)
    rep.add_tlc(r, "MC_C18: DefaultSharesNothing, OnlyListed on SharedPaths; expected wire + expected shared paths per state")
    if r.violated:
        raise tlc.MachineryError(f"model property violated on the reference spec: {r.violated}")
    recs = [p for p in r.printed if p[0] == "share"]
    ctx = mp.get_context("fork")
    with ctx.Pool(16) as pool:
        for out in pool.imap_unordered(_run, recs, chunksize=16):
            rep.count(out["n"])
            rep.cov["traces_validated_against_impl"] += out["n"]
            for m in out["mism"]:
                rep.violation(m["clause"], {**m, "channel": "R", "replay_module": "harness.checks.c18", "vector": out["rec"]})
    for p in recs:
        rep.nontrivial(hashlib.sha1(jkey(p[1:3]).encode()).hexdigest())
    for p in recs[:: max(1, len(recs) // 2)][:2]:
        rep.sample({"T": p[1], "value": p[2], "expected_shared_paths": p[4]})
    rep.assumptions += ["Any positions are excepted (AnyPaths), as in the statement", "sharing is observed by id() on list/dict/set/deque/bytearray objects of the argument and of the output graph"]
    return rep.finish({"exhaustive": True, "rule": "28 shapes (collections of int/str/date/Any, one level of nesting) as a dataclass field x every subset N of {list, dict, set} as Config.dialect.no_copy_collections x mixin/plain x sample values"})


def replay(rec, path):
    out = _run(rec["vector"])
    hit = [m for m in out["mism"] if m["clause"] == rec["clause"]]
    if hit:
        print("observed now:", json.dumps(hit[0]["actual"])[:400])
        print(f"VIOLATION property=C18 replay={path}")
        return 1
    print("no longer reproduces on the current tree")
    return 0
