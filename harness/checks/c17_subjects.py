"""Hand-written C17 subjects: classes that are local, dynamically created, share a qualified name or are
not importable by name.  (No 'from __future__ import annotations'.)"""
import dataclasses
import enum
import types
import typing

from mashumaro import DataClassDictMixin


def make_local_enum(values):
    class Kind(enum.Enum):          # same qualified name every time this function is called
        A = values[0]
        B = values[1]
    return Kind


def subjects():
    """-> list of (label, callable building (cls, value, expected attribute types))"""
    out = []

    def same_named_local_enums():
        K1, K2 = make_local_enum(["a", "b"]), make_local_enum(["x", "y"])

        @dataclasses.dataclass
        class Holder(DataClassDictMixin):
            p: K1
            q: K2
        return Holder, Holder(K1.A, K2.B), {"p": K1, "q": K2}
    out.append(("two distinct local enums with one qualified name", same_named_local_enums))

    def functional_enum():
        E = enum.Enum("NotBoundToThisName", [("A", 1), ("B", 2)])

        @dataclasses.dataclass
        class Holder(DataClassDictMixin):
            e: E
            es: typing.List[E]
        return Holder, Holder(E.A, [E.B]), {"e": E}
    out.append(("functional Enum not bound to its name", functional_enum))

    def functional_namedtuple():
        NT = typing.NamedTuple("NTF", [("a", int), ("b", str)])

        @dataclasses.dataclass
        class Holder(DataClassDictMixin):
            t: NT
        return Holder, Holder(NT(1, "x")), {"t": NT}
    out.append(("functional NamedTuple", functional_namedtuple))

    def functional_typeddict():
        TD = typing.TypedDict("TDF", {"a": int})

        @dataclasses.dataclass
        class Holder(DataClassDictMixin):
            t: TD
        return Holder, Holder({"a": 1}), {}
    out.append(("functional TypedDict", functional_typeddict))

    def made_dataclass():
        P = dataclasses.make_dataclass("MadeP", [("x", int)])

        @dataclasses.dataclass
        class Holder(DataClassDictMixin):
            p: P
            ps: typing.Dict[str, P]
        return Holder, Holder(P(1), {"k": P(2)}), {"p": P}
    out.append(("make_dataclass class", made_dataclass))

    def two_made_same_name():
        P1 = dataclasses.make_dataclass("Twin", [("x", int)])
        P2 = dataclasses.make_dataclass("Twin", [("y", str)])

        @dataclasses.dataclass
        class Holder(DataClassDictMixin):
            a: P1
            b: P2
        return Holder, Holder(P1(1), P2("s")), {"a": P1, "b": P2}
    out.append(("two distinct make_dataclass classes named Twin", two_made_same_name))

    def mapping_proxy():
        @dataclasses.dataclass
        class Holder(DataClassDictMixin):
            m: types.MappingProxyType[str, int]
            d: typing.DefaultDict[str, types.MappingProxyType[str, int]] = dataclasses.field(default_factory=dict)
        return Holder, Holder(types.MappingProxyType({"a": 1})), {"m": types.MappingProxyType}
    out.append(("builtins-module generic MappingProxyType", mapping_proxy))

    def rebound(kind, lazy):
        """the module-level NAME of a nested dataclass is re-bound to another class after the holder exists (a re-run notebook
        cell, a reloaded module, a v2 model): the holder's annotation still names the ORIGINAL class object"""
        def build():
            import sys
            from mashumaro.config import BaseConfig
            modname = f"mverif_rebound_{kind}_{int(lazy)}"
            mod = types.ModuleType(modname)
            sys.modules[modname] = mod
            Item = dataclasses.make_dataclass("Item", [("sku", str), ("n", int, dataclasses.field(default=1))], namespace={"__module__": modname})
            Item.__module__ = modname
            mod.Item = Item
            base = {"dict": DataClassDictMixin}[kind] if kind == "dict" else __import__("mashumaro.mixins." + kind, fromlist=["x"]).__dict__[
                {"json": "DataClassJSONMixin", "msgpack": "DataClassMessagePackMixin", "orjson": "DataClassORJSONMixin"}[kind]]
            ns = {"__module__": modname, "__annotations__": {"item": Item, "items": typing.List[Item], "opt": typing.Optional[Item], "by": typing.Dict[str, Item]}}
            if lazy:
                ns["Config"] = type("Config", (BaseConfig,), {"lazy_compilation": True})
            Holder = dataclasses.dataclass(type("Holder", (base,), ns))
            mod.Holder = Holder
            value = Holder(Item("a"), [Item("b", 2)], Item("c"), {"k": Item("d")})
            # ... and only now the name is re-bound
            Decoy = dataclasses.make_dataclass("Item", [("sku", str), ("n", int, dataclasses.field(default=1)), ("v2", bool, dataclasses.field(default=True))],
                                               namespace={"__module__": modname})
            mod.Item = Decoy
            if kind != "dict":
                to_m, from_m = {"json": ("to_json", "from_json"), "msgpack": ("to_msgpack", "from_msgpack"), "orjson": ("to_jsonb", "from_json")}[kind]
                back = getattr(Holder, from_m)(getattr(value, to_m)())
                if type(back.item) is not Item or type(back.items[0]) is not Item or type(back.opt) is not Item or type(back.by["k"]) is not Item:
                    raise AttributeError(f"from_{kind}: nested values are instances of {type(back.item)!r}, not of the annotated class")
            return Holder, value, {"item": Item, "opt": Item}
        return build
    for kind in ("dict", "json", "msgpack", "orjson"):
        for lazy in (False, True):
            out.append((f"module-level name of a nested dataclass re-bound after the holder was defined ({kind} mixin, lazy={lazy})", rebound(kind, lazy)))

    def generic_two_modules(first, lazy, plain_box):
        """ONE generic dataclass specialised with two DISTINCT classes that share their short name and live in two modules
        (shop.Item / warehouse.Item), in either order of first compilation: each specialisation is its own class"""
        def build():
            import sys
            from mashumaro.config import BaseConfig
            tag = f"{first}_{int(lazy)}_{int(plain_box)}"
            mods = {}
            for mn, fields in (("shop", [("sku", str), ("price", int)]), ("warehouse", [("sku", int), ("bin", str, dataclasses.field(default="b"))])):
                modname = f"mverif_{mn}_{tag}"
                mod = types.ModuleType(modname)
                sys.modules[modname] = mod
                Item = dataclasses.make_dataclass("Item", fields, namespace={"__module__": modname})
                Item.__module__ = modname
                mod.Item = Item
                mods[mn] = mod
            T = typing.TypeVar("T")
            gmodname = f"mverif_models_{tag}"                 # Box and Holder are ordinary module-level classes of a third module
            gmod = types.ModuleType(gmodname)
            sys.modules[gmodname] = gmod
            box_bases = (typing.Generic[T],) if plain_box else (DataClassDictMixin, typing.Generic[T])
            Box = dataclasses.dataclass(types.new_class("Box", box_bases, {}, lambda ns: ns.update(
                {"__annotations__": {"v": T, "vs": typing.List[T]}, "__module__": gmodname})))
            gmod.Box = Box
            SI, WI = mods["shop"].Item, mods["warehouse"].Item
            ann = {"a": Box[SI], "b": Box[WI]} if first == "shop" else {"b": Box[WI], "a": Box[SI]}
            ns = {"__annotations__": ann, "__module__": gmodname}
            if lazy:
                ns["Config"] = type("Config", (BaseConfig,), {"lazy_compilation": True})
            Holder = dataclasses.dataclass(type("Holder", (DataClassDictMixin,), ns))
            gmod.Holder = Holder
            value = Holder(a=Box(SI("s", 1), [SI("t", 2)]), b=Box(WI(7), [WI(8, "c")]))
            return Holder, value, {"a.v": SI, "b.v": WI, "a.vs.[0]": SI, "b.vs.[0]": WI}
        return build
    for first in ("shop", "warehouse"):
        for lazy in (False, True):
            for plain_box in (True, False):
                out.append((f"one generic specialised with shop.Item and warehouse.Item ({first} first, lazy={lazy}, plain generic={plain_box})",
                            generic_two_modules(first, lazy, plain_box)))

    def local_dialect():
        from mashumaro.config import ADD_DIALECT_SUPPORT, BaseConfig
        from mashumaro.dialect import Dialect

        class LocalD(Dialect):
            omit_none = True

        @dataclasses.dataclass
        class Holder(DataClassDictMixin):
            x: typing.Optional[int] = None

            class Config(BaseConfig):
                code_generation_options = [ADD_DIALECT_SUPPORT]
                lazy_compilation = True
        from mashumaro.codecs.basic import BasicEncoder
        BasicEncoder(Holder, default_dialect=LocalD).encode(Holder())
        return Holder, Holder(), {}
    out.append(("local Dialect class as codec default_dialect of a lazily compiled class", local_dialect))
    return out
