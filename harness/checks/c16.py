"""C16: schema-supplied strings are data, never code."""
from __future__ import annotations

import builtins
import hashlib
import json
import multiprocessing as mp

from harness import core, tlc
from harness.core import norm_err
from harness.report import Report
from harness.terms import canon, jkey, terms_equal, wire_match

_counter = [0]


def _sentinel(*a, **k):
    _counter[0] += 1
    return 0


def _run(rec):
    from harness.real import Subject, abstract_exception
    from harness.terms import abstract_value, concretize_type, concretize_value
    _, pos, string, T, value, wire, inp, dec, subd = rec
    out = {"n": 1, "mism": [], "rec": rec}
    builtins.__v = _sentinel
    _counter[0] = 0
    base = {"position": pos, "string": string, "T": T}
    try:
        subj = Subject(T)
    except BaseException as e:  # noqa: BLE001  (SyntaxError included)
        out["mism"].append({**base, "clause": "build", "expected": "the class builds", "actual": ["exc", type(e).__name__, str(e)[:160]]})
        if _counter[0]:
            out["mism"].append({**base, "clause": "sentinel-executed", "expected": 0, "actual": _counter[0]})
        return out
    try:
        if subd:
            try:
                concretize_type(subd, subj.reg)
            except BaseException as e:  # noqa: BLE001  (SyntaxError included)
                out["mism"].append({**base, "clause": "build", "expected": "the subclass builds", "actual": ["exc", type(e).__name__, str(e)[:160]]})
                if _counter[0]:
                    out["mism"].append({**base, "clause": "sentinel-executed", "expected": 0, "actual": _counter[0]})
                return out
        if wire != ["skip"]:
            try:
                kw = {"by_alias": True} if pos == "aliasflag" else {}
                w = abstract_value(subj.encode_py(concretize_value(value, subj.reg), **kw), subj.reg)
                if not wire_match(canon(wire), w):
                    out["mism"].append({**base, "clause": "wire", "input": value, "expected": wire, "actual": w})
            except BaseException as e:  # noqa: BLE001
                out["mism"].append({**base, "clause": "wire", "input": value, "expected": wire, "actual": ["exc", type(e).__name__, str(e)[:160]]})
        try:
            r = ["ok", abstract_value(subj.decode_py(concretize_value(inp, subj.reg)), subj.reg)]
        except BaseException as e:  # noqa: BLE001
            r = norm_err(abstract_exception(e, subj.reg))
        if not terms_equal(r, norm_err(dec)):
            out["mism"].append({**base, "clause": "decode", "input": inp, "expected": dec, "actual": r})
        if _counter[0]:
            out["mism"].append({**base, "clause": "sentinel-executed", "expected": 0, "actual": _counter[0]})
    finally:
        subj.close()
    return out


def run(prop, tier, seed):
    rep = Report("C16", tier, seed)
    wd = tlc.scratch()
    cfg = core.cfg_text("MC_C16.cfg", MaxLen=2 if tier == "quick" else 3)
    r = core.run_mc_with_table("MC_C16", wd, [(["date"], [["str", "2024-01-02"]])], cfg=cfg, timeout=3000)
    rep.add_tlc(r, "MC_C16: ReprSafe, RawSafeWhenPlain, RawSpliceRefuted over all strings of length <= 4; ExactlyTheString; one class per (position, string)")
    if r.violated:
        raise tlc.MachineryError(f"model property violated on the reference spec: {r.violated}")
    recs = [p for p in r.printed if p[0] == "quote"]
    ctx = mp.get_context("fork")
    with ctx.Pool(16) as pool:
        for out in pool.imap_unordered(_run, recs, chunksize=16):
            rep.count(out["n"])
            rep.cov["traces_validated_against_impl"] += out["n"]
            for m in out["mism"]:
                rep.violation(m["clause"], {**m, "needs_escaping": any(c in m["string"] for c in "'\\\n"),
                                            "replay_module": "harness.checks.c16", "vector": out["rec"]})
    for p in recs:
        if len(p[2]) >= 1:
            rep.nontrivial(hashlib.sha1(jkey(p[1:3]).encode()).hexdigest())
    for p in recs[:: max(1, len(recs) // 3)][:3]:
        rep.sample({"position": p[1], "string": p[2], "expected_wire": p[5]})
    rep.assumptions += ["alphabet: ' \" \\\\ n LF { } % a e-acute; payload strings call a harmless counter injected into builtins (__v) if they are ever executed",
                        "named-tuple field names and dataclass field names must be identifiers and cannot carry arbitrary strings (not a position)"]
    # sibling Literal types whose strings differ only in non-word characters, inside configured classes
    from harness.checks import conf_props
    conf_props.run_into(rep, "C16", tier, seed)
    return rep.finish({"exhaustive": False, "rule": "9 positions x all strings of length <= MaxLen over a 10-character adversarial alphabet + 6 payloads; non-trivial = non-empty string"})


def replay(rec, path):
    out = _run(rec["vector"])
    hit = [m for m in out["mism"] if m["clause"] == rec["clause"]]
    if hit:
        print("observed now:", json.dumps(hit[0]["actual"])[:300])
        print(f"VIOLATION property=C16 replay={path}")
        return 1
    print("no longer reproduces on the current tree")
    return 0
