"""Schema subjects declared under postponed evaluation of annotations: every annotation in this module is a STRING
that the schema builder has to resolve against this module's globals (forward references)."""
from __future__ import annotations

import dataclasses
import enum
from typing import Generic, List, NamedTuple, Optional, TypeVar


class Shade(enum.Enum):
    DARK = "dark"
    LIGHT = "light"


@dataclasses.dataclass
class Leaf:
    x: int
    tag: Optional[str] = None


class Pair(NamedTuple):
    leaf: Leaf
    shades: List[Shade]
    n: int


B = TypeVar("B", bound="Leaf")


@dataclasses.dataclass
class Bounded(Generic[B]):
    item: B


@dataclasses.dataclass
class Holder:
    pair: Pair
    pairs: List[Pair]
    b: Bounded[Leaf]


SUBJECTS = [("Pair", Pair, [Pair(Leaf(1), [Shade.DARK], 2)]),
            ("List[Pair]", List[Pair], [[Pair(Leaf(1, "t"), [], 0)]]),
            ("Holder", Holder, [Holder(Pair(Leaf(1), [Shade.LIGHT], 3), [], Bounded(Leaf(2)))])]
