"""Schema subjects declared under postponed evaluation of annotations: every annotation in this module is a STRING
that the schema builder has to resolve against this module's globals (forward references)."""
from __future__ import annotations

import dataclasses
import enum
from typing import Generic, List, NamedTuple, Optional, TypeVar


class Shade(enum.Enum):
    DARK = "dark"
    LIGHT = "light"


@dataclasses.dataclass
class Leaf:
    x: int
    tag: Optional[str] = None


class Pair(NamedTuple):
    leaf: Leaf
    shades: List[Shade]
    n: int


B = TypeVar("B", bound="Leaf")


@dataclasses.dataclass
class Bounded(Generic[B]):
    item: B


@dataclasses.dataclass
class Holder:
    pair: Pair
    pairs: List[Pair]
    b: Bounded[Leaf]


import datetime as _dt

from mashumaro.types import SerializationStrategy


class Ordinal(SerializationStrategy):
    """a strategy whose annotations are strings too (postponed evaluation): serialize returns what '-> int' promises"""

    def serialize(self, value: _dt.date) -> int:
        return value.toordinal()

    def deserialize(self, value: int) -> _dt.date:
        return _dt.date.fromordinal(value)


@dataclasses.dataclass
class Dated:
    d: _dt.date = dataclasses.field(metadata={"serialization_strategy": Ordinal()})
    e: _dt.date = dataclasses.field(default=_dt.date(2020, 1, 1), metadata={"serialization_strategy": Ordinal()})
    ds: List[_dt.date] = dataclasses.field(default_factory=list)


import typing as _typing

if _typing.TYPE_CHECKING:               # the name exists for type checkers only
    from fractions import Fraction


def as_fraction(value: _dt.date) -> Fraction:        # a postponed return annotation that cannot be resolved at run time
    return value.toordinal()


def as_local(value: _dt.date) -> NoSuchName:          # noqa: F821  (misspelt / local name)
    return value.toordinal()


@dataclasses.dataclass
class Unresolvable:
    """overridden serialization whose return annotation cannot be evaluated: the builder describes the field as Any (with a
    warning), it never lets NameError escape"""
    a: _dt.date = dataclasses.field(metadata={"serialize": as_fraction})
    b: _dt.date = dataclasses.field(default=_dt.date(2020, 1, 1), metadata={"serialize": as_local})
    c: List[_dt.date] = dataclasses.field(default_factory=list)


SUBJECTS = [("Unresolvable return annotations", Unresolvable, [Unresolvable(_dt.date(2024, 2, 29))]),
            ("Dict[str, Unresolvable]", _typing.Dict[str, Unresolvable], [{"k": Unresolvable(_dt.date(2024, 2, 29))}]),
            ("Dated (strategy with postponed return annotation)", Dated, [Dated(_dt.date(2024, 2, 29)), Dated(_dt.date(1, 1, 1), _dt.date(9999, 12, 31), [_dt.date(2000, 1, 1)])]),
            ("List[Dated]", List[Dated], [[Dated(_dt.date(2024, 2, 29))]]),
            ("Pair", Pair, [Pair(Leaf(1), [Shade.DARK], 2)]),
            ("List[Pair]", List[Pair], [[Pair(Leaf(1, "t"), [], 0)]]),
            ("Holder", Holder, [Holder(Pair(Leaf(1), [Shade.LIGHT], 3), [], Bounded(Leaf(2)))])]
