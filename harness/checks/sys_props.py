"""C13 C14 C15: the state machine sys/Mashumaro.tla (dialect caches, lazy stubs, codecs) -- every history of
bounded length is checked by TLC (Faithful, CacheOwn, IsolationEq, CodecPure) and replayed against the real library."""
from __future__ import annotations

import hashlib
import json

from harness import behave, core, tlc
from harness.report import Report
from harness.terms import jkey

DATES = [["str", "%04d-02-28" % y] for y in (2019, 2020, 2021, 2022, 2023, 2024)]
TABLE = [(["date", "int", "str"], DATES + [["int", 5], ["str", "t"]])]


def configs(prop, tier):
    L = 4 if tier == "quick" else 5
    if prop == "C13":
        return [dict(MaxLen=L)]
    if prop == "C14":
        return [dict(MaxLen=L, LazyC=True), dict(MaxLen=L, LazyC=True, LazyInner=True), dict(MaxLen=L, LazyInner=True)]
    if prop == "C15":
        return [dict(MaxLen=L, Codecs=True), dict(MaxLen=min(L, 4), Codecs=True, LazyC=True)]
    raise KeyError(prop)


def run(prop, tier, seed):
    rep = Report(prop, tier, seed)
    wd = tlc.scratch()
    for kw in configs(prop, tier):
        cfg = core.cfg_text("MC_Sys.cfg", **kw)
        r = core.run_mc_with_table("MC_Sys", wd, TABLE, cfg=cfg, rep=rep, timeout=3000,
                                   label=f"MC_Sys {kw}: Faithful CacheOwn IsolationEq CodecPure; every history of full length exported")
        if r.violated:
            raise tlc.MachineryError(f"model property violated on the reference spec: {r.violated}")
        t = behave.SysTables(r.printed)
        agg = behave.replay_sys(t, twins=(prop == "C13"))
        rep.count(agg["events"])
        rep.cov["traces_validated_against_impl"] += agg["behaviours"]
        rep.drift += sorted(agg["drift"])
        for b in t.behaviours:
            if sum(1 for e in b if e[0] in ("Call", "CodecCall")) >= 2:
                rep.nontrivial(hashlib.sha1(jkey([kw, b]).encode()).hexdigest())
        for m in agg["mism"]:
            rep.violation(m["clause"], {**m, "config": kw, "replay_module": "harness.checks.sys_props", "prop": prop,
                                        "tables": {"classes": t.classes, "values": t.values, "inputs": t.inputs, "dialects": t.dialects,
                                                   "twins": {jkey(list(k)): v for k, v in t.twins.items()} if m["clause"] == "twin" else {}}})
        if t.behaviours:
            rep.sample({"config": kw, "behaviour": t.behaviours[len(t.behaviours) // 2]})
    # sensitivity: the deviant cache lookup (found through the parent class) must be refuted by TLC
    if prop == "C13":
        try:
            rd = core.run_mc_with_table("MC_Sys", wd, TABLE, cfg=core.cfg_text("MC_Sys.cfg", MaxLen=4, CacheMode='"inherited"'), timeout=900)
            rep.selftests["inherited_cache_refuted_by_TLC"] = bool({"Faithful", "CacheOwn"} & set(rd.violated))
        except tlc.MachineryError as e:
            rep.selftests["inherited_cache_refuted_by_TLC"] = "Faithful" in str(e) or "CacheOwn" in str(e)
        from harness.checks import c13_formats
        c13_formats.run(rep, tier)
    if prop == "C14":
        from harness.checks import c14_extra
        c14_extra.run(rep, tier, seed)
    rep.assumptions += ["family: P (plain nested), Inner (dialect support), C (nested, list of nested, plain nested, aliased Optional), S < C; dialects D1 (strategy), D2 (omit_none+by_alias), D3 (strategy+omit_none)",
                        "the twin of a family under D gives every class reached through dialect-enabled classes the default dialect Layer(D, own) (DESIGN.md 6 C13)"]
    return rep.finish({"exhaustive": True,
                       "rule": "all histories of length MaxLen over Define(C|S) / Call(class, to|from, none|D1|D2|D3) [/ CreateCodec / CodecCall]; each behaviour on fresh classes; "
                               "non-trivial = at least two calls"})


def replay(rec, path):
    t = behave.SysTables([])
    tb = rec["tables"]
    t.classes, t.values, t.inputs, t.dialects = tb["classes"], tb["values"], tb["inputs"], tb["dialects"]
    ev = rec["event"]
    key = (ev[1], ev[2], ev[3])
    if rec["clause"] == "twin":
        t.twins = {key: tb["twins"][jkey(list(key))]}
        t.calls = {key: rec["expected"]}
        behave._TABLES = t
        m = behave._run_twin(key)
    else:
        (t.calls if ev[0] == "Call" else t.codeccalls)[key] = rec["expected"]
        # earlier events of the history need expectations too: they are re-executed but only the last one is judged
        for e in rec["history"][:-1]:
            if e[0] in ("Call", "CodecCall"):
                (t.calls if e[0] == "Call" else t.codeccalls).setdefault((e[1], e[2], e[3]), None)
        behave._TABLES = t
        m = _replay_history(t, rec["history"])
    if m:
        print("observed now:", json.dumps(m["actual"])[:500])
        print(f"VIOLATION property={rec.get('prop', rec.get('property'))} replay={path}")
        return 1
    print("no longer reproduces on the current tree")
    return 0


def _replay_history(t, hist):
    from harness.terms import canon, terms_equal, wire_match
    w = behave.World(t)
    try:
        for idx, ev in enumerate(hist):
            last = idx == len(hist) - 1
            if ev[0] == "Define":
                w.define(ev[1])
            elif ev[0] == "CreateCodec":
                w.create_codec(ev[1], ev[2], ev[3])
            else:
                act = w.call(ev[1], ev[2], ev[3]) if ev[0] == "Call" else w.codec_call(ev[1], ev[2], ev[3])
                if last:
                    exp = (t.calls if ev[0] == "Call" else t.codeccalls)[(ev[1], ev[2], ev[3])]
                    ok = wire_match(canon(exp), act) if ev[2] == "to" else terms_equal(exp, act)
                    return None if ok else {"actual": act}
    finally:
        w.close()
    return None
