"""C13 C14 C15: the state machine sys/Mashumaro.tla (dialect caches, lazy stubs, codecs) -- every history of
bounded length is checked by TLC (Faithful, CacheOwn, IsolationEq, CodecPure) and replayed against the real library."""
from __future__ import annotations

import hashlib
import json

from harness import behave, core, tlc
from harness.report import Report
from harness.terms import jkey

DATES = [["str", "%04d-02-28" % y] for y in (2019, 2020, 2021, 2022, 2023, 2024, 2025)]
TABLE = [(["date", "int", "str"], DATES + [["int", 5], ["str", "t"]]), (["bytes"], [["str", "AQL/\n"], ["str", "Cf8=\n"]])]


def configs(prop, tier):
    L = 4 if tier == "quick" else 5
    if prop == "C13":
        return [dict(MaxLen=L), dict(MaxLen=L, Mixin='"msgpack"'), dict(MaxLen=L - 1, Mixin='"orjson"', LazyC=True),
                # a format dialect that changes the document (bytes stay native) on a class compiled at its first call: the format
                # dialect is part of every method the stub compiles, with and without a call dialect, in every order of first use
                dict(MaxLen=L - 1, Mixin='"msgpack"', LazyC=True), dict(MaxLen=L - 1, Mixin='"msgpack"', LazyC=True, LazyInner=True)]
    if prop == "C14":
        return [dict(MaxLen=L, LazyC=True), dict(MaxLen=L, LazyC=True, LazyInner=True), dict(MaxLen=L, LazyInner=True),
                dict(MaxLen=L - 1, LazyC=True, Mixin='"orjson"', KwFlags=True), dict(MaxLen=L - 1, LazyC=True, Mixin='"msgpack"', KwFlags=True),
                dict(MaxLen=L - 1, LazyC=True, LazyInner=True, KwFlags=True)]
    if prop == "C15":
        return [dict(MaxLen=L, Codecs=True), dict(MaxLen=min(L, 4), Codecs=True, LazyC=True)]
    if prop == "C04":
        return [dict(MaxLen=L, Mixin='"msgpack"'), dict(MaxLen=L - 1, Mixin='"orjson"', KwFlags=True),
                dict(MaxLen=L - 1, Mixin='"msgpack"', LazyInner=True)]       # the nested class's helper packers compiled at first use
    if prop == "C03":
        # what from_dict returns for a document does not depend on which dialects / formats decoded on the class before
        # (the family has a union field whose member decoding is dialect dependent)
        return [dict(MaxLen=L - 1), dict(MaxLen=L - 1, Mixin='"msgpack"')]
    if prop == "C01":
        # round trips ALONG histories: to_<format>(dialect=D) / to_dict(dialect=D) / from_* in every order on one class
        return [dict(MaxLen=L - 1, Mixin='"msgpack"')]
    if prop == "C02":
        return [dict(MaxLen=3, LazyC=True, Mixin='"msgpack"'), dict(MaxLen=3, LazyC=True, LazyInner=True, Mixin='"orjson"')]
    if prop == "C08":
        return [dict(MaxLen=L - 1, LazyC=True, KwFlags=True), dict(MaxLen=L - 1, KwFlags=True)]
    if prop == "C10":
        # the format dialect is the LOWEST level: histories mixing to_dict / to_msgpack with and without call dialects
        return [dict(MaxLen=L, Mixin='"msgpack"')]
    raise KeyError(prop)


def run(prop, tier, seed):
    rep = Report(prop, tier, seed)
    run_into(rep, prop, tier, seed)
    return finish(rep)


GTABLE = [(["date", "int", "str"], [["str", "2024-02-28"], ["str", "2023-02-28"], ["float", 25, -1], ["float", 15, -1], ["float", 2, 0], ["bool", True]])]


def diff_paths(a, b, pre=()):
    """index paths at which two terms differ"""
    if isinstance(a, list) and isinstance(b, list) and len(a) == len(b):
        out = []
        for i, (x, y) in enumerate(zip(a, b)):
            out += diff_paths(x, y, pre + (i,))
        return out
    return [] if (a == b and type(a) is type(b)) else [list(pre)]


def run_into(rep, prop, tier, seed):
    """the sys state-machine part; also used by C04 and C08 (format / keyword histories)"""
    wd = tlc.scratch()
    runs = [("MC_Sys", TABLE, kw) for kw in configs(prop, tier)]
    if prop == "C14":
        # a generic nested dataclass at ==-equal but differently ordered specialisations (sys/Mashumaro.tla: gspecs)
        runs += [("MC_SysG", GTABLE, dict(MaxLen=5, Lazy=True)), ("MC_SysG", GTABLE, dict(MaxLen=5 if tier == "quick" else 6, Lazy=False))]
    for module, table, kw in runs:
        cfg = core.cfg_text(module + ".cfg", **kw)
        r = core.run_mc_with_table(module, wd, table, cfg=cfg, rep=rep, timeout=3000,
                                   label=f"{module} {kw}: Faithful CacheOwn IsolationEq CodecPure; every history of full length exported")
        if module != "MC_Sys":
            kw = {**kw, "family": module}
        if r.violated:
            raise tlc.MachineryError(f"model property violated on the reference spec: {r.violated}")
        t = behave.SysTables(r.printed)
        agg = behave.replay_sys(t, twins=(prop == "C13"))
        rep.count(agg["events"])
        rep.cov["traces_validated_against_impl"] += agg["behaviours"]
        rep.drift += sorted(agg["drift"])
        for b in t.behaviours:
            if sum(1 for e in b if e[0] in ("Call", "CodecCall")) >= 2:
                rep.nontrivial(hashlib.sha1(jkey([kw, b]).encode()).hexdigest())
        for m in agg["mism"]:
            ev_ = m["event"]
            if prop == "C03" and ev_[2] != "from":
                continue                      # C03 reads the decoding calls of the histories
            akey = (ev_[1], ev_[2], ev_[3], ev_[4], ev_[5]) if ev_[0] == "Call" else None
            rep.violation(m["clause"], {**m, "config": kw, "replay_module": "harness.checks.sys_props", "prop": prop,
                                        "diff": diff_paths(m["expected"], m["actual"]),
                                        "arg": t.args.get(akey) if akey else None,
                                        "args": {jkey(list(e[1:6])): t.args.get((e[1], e[2], e[3], e[4], e[5])) for e in m["history"] if e[0] == "Call" and e[2] == "from"},
                                        "tables": {"classes": t.classes, "values": t.values, "inputs": t.inputs, "dialects": t.dialects,
                                                   "twins": {jkey(list(k)): v for k, v in t.twins.items()} if m["clause"] == "twin" else {}}})
        if t.behaviours:
            rep.sample({"config": kw, "behaviour": t.behaviours[len(t.behaviours) // 2]})
    # sensitivity: the deviant cache lookup (found through the parent class) must be refuted by TLC
    if prop == "C13":
        for mode, extra in (("inherited", {}), ("noformat", {"Mixin": '"msgpack"'})):
            try:
                rd = core.run_mc_with_table("MC_Sys", wd, TABLE, cfg=core.cfg_text("MC_Sys.cfg", MaxLen=4, CacheMode=f'"{mode}"', **extra), timeout=900)
                rep.selftests[f"{mode}_cache_refuted_by_TLC"] = bool({"Faithful", "CacheOwn"} & set(rd.violated))
            except tlc.MachineryError as e:
                rep.selftests[f"{mode}_cache_refuted_by_TLC"] = "Faithful" in str(e) or "CacheOwn" in str(e)
        from harness.checks import c13_formats
        c13_formats.run(rep, tier)
        # random configured families: calls with and without dialects follow each other in random order on one class
        from harness.checks import conf_props
        conf_props.run_into(rep, "C13", tier, seed)
    if prop == "C14":
        try:
            rd = core.run_mc_with_table("MC_SysG", wd, GTABLE, cfg=core.cfg_text("MC_SysG.cfg", MaxLen=4, SpecKeyMode='"equal"'), timeout=900)
            rep.selftests["equal_type_args_sharing_one_specialisation_refuted_by_TLC"] = "Faithful" in rd.violated
        except tlc.MachineryError as e:
            rep.selftests["equal_type_args_sharing_one_specialisation_refuted_by_TLC"] = "Faithful" in str(e)
        from harness.checks import c14_extra
        c14_extra.run(rep, tier, seed)
    if prop == "C15":
        oneshot_entry_points(rep, tier, wd)
        # mixin method vs codec objects (bare, in a list, in a mapping; with / without default_dialect) on configured families
        from harness.checks import conf_props
        conf_props.run_into(rep, "C15", tier, seed)
    rep.assumptions += ["family: P (plain nested), Inner (dialect support), C (nested, list of nested, plain nested, aliased Optional), S < C; dialects D1 (strategy), D2 (omit_none+by_alias), D3 (strategy+omit_none)",
                        "the twin of a family under D gives every class reached through dialect-enabled classes the default dialect Layer(D, own) (DESIGN.md 6 C13)"]


def oneshot_entry_points(rep, tier, wd):
    """C15: the one-shot encode()/decode() functions, the codec objects, elementwise use inside List[...] and use as a
    dataclass field agree -- for every ordered union / literal shape of MC_C11 (so equal-but-reordered shapes follow each
    other in ONE process: creating a codec for one shape must not change what another shape does)."""
    from harness.real import BasicDecoder, BasicEncoder, Subject, abstract_exception
    from harness.core import norm_err
    from harness.terms import abstract_value, canon, concretize_value, terms_equal, wire_match
    from mashumaro.codecs.basic import decode as oneshot_decode, encode as oneshot_encode
    import typing
    r = core.run_mc("MC_C11", wd, cfg=core.cfg_text("MC_C11.cfg", MaxMembers=2), rep=rep,
                    label="MC_C11 (MaxMembers=2) as the shape universe for the entry-point comparison")
    recs = [p for p in r.printed if p[1][0] != "dc"]
    if tier == "quick":
        recs = recs[::2]
    n = 0
    subjects = {}
    try:
        for p in recs:
            T = p[1]
            k = jkey(T)
            if k not in subjects:
                subjects[k] = Subject(T)
            sj = subjects[k]
            n += 1
            if p[0] == "vec":
                x = concretize_value(p[2], sj.reg)
                outs = {}
                for name, fn in (("one-shot encode()", lambda: oneshot_encode(x, sj.ann)),
                                 ("BasicEncoder", lambda: BasicEncoder(sj.ann).encode(x)),
                                 ("BasicEncoder(List[T])[0]", lambda: BasicEncoder(list[sj.ann]).encode([x])[0])):
                    try:
                        outs[name] = abstract_value(fn(), sj.reg)
                    except Exception as e:  # noqa: BLE001
                        outs[name] = ["exc", type(e).__name__]
                ref = outs["BasicEncoder"]
                for name, o in outs.items():
                    if not terms_equal(o, ref):
                        rep.violation("entry-points-disagree", {"T": T, "input": p[2], "expected": ref, "actual": o, "entry": name,
                                                                "replay_module": "harness.checks.sys_props", "prop": "C15"})
                if ref[0] != "exc" and not wire_match(canon(p[3]), ref):
                    pass        # the reference wire form is C02/C11's business; here only agreement between entry points is judged
            else:
                if p[3][0] != "ok":
                    continue        # C15 speaks of conforming documents ("and dually for decoding"): what the entry points do with
                                    # input the reference rejects is C03 / C05's business (e.g. null under a bound TypeVar is
                                    # refused at the top of a shape and let through as an element -- "act as if Optional[bound]")
                d = concretize_value(p[2], sj.reg)
                outs = {}
                for name, fn in (("one-shot decode()", lambda: oneshot_decode(d, sj.ann)),
                                 ("BasicDecoder", lambda: BasicDecoder(sj.ann).decode(d)),
                                 ("BasicDecoder(List[T])[0]", lambda: BasicDecoder(list[sj.ann]).decode([d])[0])):
                    try:
                        outs[name] = ["ok", abstract_value(fn(), sj.reg)]
                    except Exception as e:  # noqa: BLE001
                        outs[name] = ["err"]
                ref = outs["BasicDecoder"]
                for name, o in outs.items():
                    if not terms_equal(o, ref):
                        rep.violation("entry-points-disagree", {"T": T, "input": p[2], "expected": ref, "actual": o, "entry": name,
                                                                "replay_module": "harness.checks.sys_props", "prop": "C15"})
    finally:
        for sj in subjects.values():
            sj.close()
    rep.count(n)
    rep.cov["traces_validated_against_impl"] += n
    rep.sample({"part": "one-shot / codec object / elementwise agreement", "shapes": len(subjects), "cases": n})


def finish(rep):
    return rep.finish({"exhaustive": True,
                       "rule": "all histories of length MaxLen over Define(C|S) / Call(class, to|from, format, none|D1|D2|D3, keyword) [/ CreateCodec / CodecCall]; each behaviour on fresh classes; "
                               "non-trivial = at least two calls"})


def replay(rec, path):
    t = behave.SysTables([])
    tb = rec["tables"]
    t.classes, t.values, t.inputs, t.dialects = tb["classes"], tb["values"], tb["inputs"], tb["dialects"]
    ev = rec["event"]
    key = (ev[1], ev[2], ev[3], ev[4] if len(ev) > 4 else "dict", ev[5] if len(ev) > 5 else "none")
    t.args = {key: rec.get("arg")}
    if rec["clause"] == "entry-points-disagree":
        from harness.report import Report
        rp = Report("C15", "thorough", 1)
        rp.known = []
        oneshot_entry_points(rp, "thorough", tlc.scratch())
        hit = [v for v in rp.violations if v["T"] == rec["T"] and v["input"] == rec["input"]]
        if hit:
            print("observed now:", json.dumps(hit[0]["actual"])[:300])
            print(f"VIOLATION property=C15 replay={path}")
            return 1
        print("no longer reproduces on the current tree")
        return 0
    if rec["clause"] == "twin":
        t.twins = {key: tb["twins"][jkey(list(key))]}
        t.calls = {key: rec["expected"]}
        behave._TABLES = t
        m = behave._run_twin(key)
    else:
        if ev[0] == "Call":
            t.calls[key] = rec["expected"]
        else:
            t.codeccalls[(ev[1], ev[2], ev[3])] = rec["expected"]
        for e in rec["history"][:-1]:
            if e[0] == "Call" and e[2] == "from":
                t.args[(e[1], e[2], e[3], e[4], e[5])] = rec.get("args", {}).get(jkey(list(e[1:6])))
        behave._TABLES = t
        m = _replay_history(t, rec["history"])
    if m:
        print("observed now:", json.dumps(m["actual"])[:500])
        print(f"VIOLATION property={rec.get('prop', rec.get('property'))} replay={path}")
        return 1
    print("no longer reproduces on the current tree")
    return 0


def _replay_history(t, hist):
    from harness.terms import canon, terms_equal, wire_match
    w = behave.World(t)
    try:
        for idx, ev in enumerate(hist):
            last = idx == len(hist) - 1
            if ev[0] == "Define":
                w.define(ev[1])
            elif ev[0] == "CreateCodec":
                w.create_codec(ev[1], ev[2], ev[3])
            else:
                try:
                    act = w.call(ev[1], ev[2], ev[3], ev[4], ev[5]) if ev[0] == "Call" else w.codec_call(ev[1], ev[2], ev[3])
                except KeyError:
                    act = None
                if last:
                    exp = t.calls[(ev[1], ev[2], ev[3], ev[4], ev[5])] if ev[0] == "Call" else t.codeccalls[(ev[1], ev[2], ev[3])]
                    ok = behave.sys_match(exp, act, ev[2], ev[5] if ev[0] == "Call" else "none")
                    return None if ok else {"actual": act}
    finally:
        w.close()
    return None
