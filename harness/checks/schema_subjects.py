"""Hand-written schema subjects (no 'from __future__ import annotations': annotations must be real objects)."""
import dataclasses
import enum
import typing

T_ = typing.TypeVar("T_")


@dataclasses.dataclass
class Box(typing.Generic[T_]):
    v: T_


@dataclasses.dataclass
class PairG:
    a: Box[int]
    b: Box[str]


def _mk(name, ftype):
    return dataclasses.make_dataclass(name, [("x", ftype)])


Same1, Same2 = _mk("Same", int), _mk("Same", str)


@dataclasses.dataclass
class PairN:
    a: Same1
    b: Same2


@dataclasses.dataclass
class Node:
    v: int
    next: typing.Optional["Node"] = None
    kids: typing.List["Node"] = dataclasses.field(default_factory=list)


class Perm(enum.Flag):
    R = 1
    W = 2
    X = 4


class IPerm(enum.IntFlag):
    R = 1
    W = 2


@dataclasses.dataclass
class WithFlags:
    p: Perm = Perm.R
    q: IPerm = IPerm.R


@dataclasses.dataclass
class WithUnpackedFixed:
    t: typing.Tuple[int, typing.Unpack[typing.Tuple[str, str]]]


# ---- NamedTuple members / TypedDict keys NAMED LIKE a sibling dataclass field that carries field-level options: the options
# belong to the field that declares them, a member of the same name inside another field's type is described by its own type
import datetime as _dt


def _as_timestamp(value: _dt.datetime) -> float:
    return value.timestamp()


class Span(typing.NamedTuple):
    start: _dt.datetime
    end: _dt.datetime


class SpanTD(typing.TypedDict):
    start: _dt.datetime
    note: str


@dataclasses.dataclass
class Job:
    start: _dt.datetime = dataclasses.field(metadata={"serialize": _as_timestamp})
    window: Span = Span(_dt.datetime(2024, 1, 1), _dt.datetime(2024, 1, 2))
    windows: typing.List[Span] = dataclasses.field(default_factory=list)
    td: typing.Optional[SpanTD] = None


class InnerNT(typing.NamedTuple):
    a: int
    b: str


class OuterNT(typing.NamedTuple):
    i: InnerNT
    n: int


@dataclasses.dataclass
class NTHolder:
    o: OuterNT = dataclasses.field(metadata={"serialize": "as_dict"})
    p: OuterNT = OuterNT(InnerNT(1, "x"), 2)


_D1, _D2 = _dt.datetime(2024, 2, 29, 1, 2, 3), _dt.datetime(2025, 1, 1)
SIBLING_SUBJECTS = [("Job (member named like a field with a serialize option)", Job,
                     [Job(_D1), Job(_D2, Span(_D1, _D2), [Span(_D1, _D1)], {"start": _D1, "note": "n"})]),
                    ("NTHolder (NamedTuple nested in a NamedTuple under as_dict)", NTHolder, [NTHolder(OuterNT(InnerNT(3, "y"), 4))])]

FLAG_VALUES = [WithFlags(Perm.R, IPerm.W), WithFlags(Perm.R | Perm.W, IPerm.R | IPerm.W), WithFlags(Perm(0), IPerm(0))]
UNPACKED_VALUES = [WithUnpackedFixed((1, "a", "b"))]
DISTINCT = [(PairG, "generic specialisations Box[int] / Box[str]"), (PairN, "two distinct classes named Same")]
