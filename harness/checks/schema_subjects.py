"""Hand-written schema subjects (no 'from __future__ import annotations': annotations must be real objects)."""
import dataclasses
import enum
import typing

T_ = typing.TypeVar("T_")


@dataclasses.dataclass
class Box(typing.Generic[T_]):
    v: T_


@dataclasses.dataclass
class PairG:
    a: Box[int]
    b: Box[str]


def _mk(name, ftype):
    return dataclasses.make_dataclass(name, [("x", ftype)])


Same1, Same2 = _mk("Same", int), _mk("Same", str)


@dataclasses.dataclass
class PairN:
    a: Same1
    b: Same2


@dataclasses.dataclass
class Node:
    v: int
    next: typing.Optional["Node"] = None
    kids: typing.List["Node"] = dataclasses.field(default_factory=list)


class Perm(enum.Flag):
    R = 1
    W = 2
    X = 4


class IPerm(enum.IntFlag):
    R = 1
    W = 2


@dataclasses.dataclass
class WithFlags:
    p: Perm = Perm.R
    q: IPerm = IPerm.R


@dataclasses.dataclass
class WithUnpackedFixed:
    t: typing.Tuple[int, typing.Unpack[typing.Tuple[str, str]]]


FLAG_VALUES = [WithFlags(Perm.R, IPerm.W), WithFlags(Perm.R | Perm.W, IPerm.R | IPerm.W), WithFlags(Perm(0), IPerm(0))]
UNPACKED_VALUES = [WithUnpackedFixed((1, "a", "b"))]
DISTINCT = [(PairG, "generic specialisations Box[int] / Box[str]"), (PairN, "two distinct classes named Same")]
