"""C19: hooks run exactly once per instance, in order, through every entry point."""
from __future__ import annotations

import hashlib
import json
import multiprocessing as mp

from harness import core, tlc
from harness.report import Report
from harness.terms import canon, eqform, jkey, terms_equal, wire_match

FORMATS = ["dict", "json", "orjson", "yaml", "msgpack", "toml", "plain"]


def with_mixin(T, kind):
    if T[0] != "dc":
        return T
    return ["dc", T[1], T[2], [o for o in T[3] if o[0] != "mixin"] + ([["mixin", kind]] if kind != "dict" else [])]


def _is_sub(exp, act):
    """exp is a subsequence of act and every extra event of act is a speculative pre_deser (union candidates)"""
    i = 0
    for e in act:
        if i < len(exp) and e == exp[i]:
            i += 1
        elif e[0] != "pre_deser":
            return False
    return i == len(exp)


def _run(rec):
    from harness.real import BasicDecoder, BasicEncoder, Subject, abstract_exception
    from harness.terms import abstract_value, concretize_value, get_opt
    from harness.checks.c04 import _fmt
    _, T, direction, arg, exp_res, exp_trace = rec
    out = {"n": 0, "mism": []}
    kinds = FORMATS if T[0] == "dc" else ["plain"]
    for kind in kinds:
        TT = with_mixin(T, kind)
        try:
            subj = Subject(TT)
        except Exception as e:  # noqa: BLE001
            out["mism"].append({"clause": "build", "T": TT, "actual": ["exc", type(e).__name__, str(e)[:200]], "entry": kind})
            continue
        try:
            reg = subj.reg
            reg.ctx_obj = {"the": "context"}
            has_ctx = TT[0] == "dc" and "context_flag" in (get_opt(TT[3], "flags", []) or [])
            out["n"] += 1
            reg.hook_log.clear()
            try:
                if direction == "ser":
                    x = concretize_value(arg, reg)
                    kw = {"context": reg.ctx_obj} if has_ctx and kind != "plain" else {}
                    if kind in ("dict",):
                        res = abstract_value(x.to_dict(**kw), reg)
                    elif kind == "plain":
                        res = abstract_value(BasicEncoder(subj.ann).encode(x), reg)
                    else:
                        to_m, from_m, Enc, Dec, parse = _fmt(kind)
                        res = abstract_value(parse(getattr(x, to_m)(**kw)), reg)
                    exp = exp_res
                    if kind == "toml":
                        exp = _drop_none(exp)
                    ok = wire_match(canon(exp), res) if kind in ("dict", "plain") else wire_match(eqform(canon(exp)), eqform(res))
                else:
                    d = concretize_value(arg, reg)
                    if kind == "dict":
                        res = ["ok", abstract_value(subj.ann.from_dict(d), reg)]
                    elif kind == "plain":
                        res = ["ok", abstract_value(BasicDecoder(subj.ann).decode(d), reg)]
                    else:
                        import json as _json
                        to_m, from_m, Enc, Dec, parse = _fmt(kind)
                        raw = _encode_raw(kind, d)
                        if raw is None:
                            continue
                        res = ["ok", abstract_value(getattr(subj.ann, from_m)(raw), reg)]
                    ok = terms_equal(res, exp_res)
            except Exception as e:  # noqa: BLE001
                res = abstract_exception(e, reg)
                ok = False
            log = [list(e) for e in reg.hook_log]
            exp_t = [list(e) for e in exp_trace]
            if not has_ctx or kind == "plain":
                exp_t = [e[:3] + [False] for e in exp_t]
            if not ok:
                out["mism"].append({"clause": "hook-result", "T": TT, "direction": direction, "input": arg, "expected": exp_res, "actual": res, "entry": kind})
            t_ok = (log == exp_t) if direction == "ser" else _is_sub(exp_t, log)
            if not t_ok:
                out["mism"].append({"clause": "hook-trace", "T": TT, "direction": direction, "input": arg, "expected": exp_t, "actual": log, "entry": kind})
        finally:
            subj.close()
    return out


def _run_fam(rec):
    """class-level discriminator + hooks: Base.from_dict / codec / list codec / holder field all dispatch to the variant once"""
    import typing
    from harness.real import BasicDecoder, abstract_exception
    from harness.terms import Registry, abstract_value, concretize_type, concretize_value
    from harness.core import norm_err
    _, base, variants, inp, exp_res, exp_trace = rec
    out = {"n": 0, "mism": []}
    exp_t = [list(e)[:3] + [False] for e in exp_trace]
    for entry in ("from_dict", "from_dict again", "codec", "list codec"):
        reg = Registry()
        try:
            B = concretize_type(base, reg)
            for V in variants:
                concretize_type(V, reg)
            d = concretize_value(inp, reg)
            if entry == "from_dict again":
                B.from_dict(d)                     # the first call fills the variant registry; the second must behave the same
            reg.hook_log.clear()
            out["n"] += 1
            try:
                if entry.startswith("from_dict"):
                    res = ["ok", abstract_value(B.from_dict(d), reg)]
                elif entry == "codec":
                    res = ["ok", abstract_value(BasicDecoder(B).decode(d), reg)]
                else:
                    res = ["ok", abstract_value(BasicDecoder(typing.List[B]).decode([d])[0], reg)]
            except Exception as e:  # noqa: BLE001
                res = norm_err(abstract_exception(e, reg))
            log = [list(e) for e in reg.hook_log]
            T = ["discrfam", base, variants]
            if not terms_equal(res, norm_err(exp_res)):
                out["mism"].append({"clause": "hook-result", "T": T, "direction": "deser", "input": inp, "expected": exp_res, "actual": res, "entry": entry})
            if not _is_sub(exp_t, log):
                out["mism"].append({"clause": "hook-trace", "T": T, "direction": "deser", "input": inp, "expected": exp_t, "actual": log, "entry": entry})
        finally:
            reg.close()
    return out


def _drop_none(w):
    if isinstance(w, list) and w and w[0] == "dict":
        return ["dict", [[k, _drop_none(x)] for k, x in w[1] if x != ["none"]]]
    if isinstance(w, list) and w and w[0] == "list":
        return ["list", [_drop_none(x) for x in w[1]]]
    return w


def _encode_raw(kind, d):
    """raw document of a plain input in the given format (format library only)"""
    import json as _json
    if kind == "json" or kind == "orjson":
        return _json.dumps(d)
    if kind == "yaml":
        import yaml
        return yaml.safe_dump(d)
    if kind == "msgpack":
        import msgpack
        return msgpack.packb(d, use_bin_type=True)
    if kind == "toml":
        import tomli_w

        def strip(x):
            if isinstance(x, dict):
                return {k: strip(v) for k, v in x.items() if v is not None}
            if isinstance(x, list):
                return [strip(v) for v in x]
            return x
        return tomli_w.dumps(strip(d))
    return None


def run(prop, tier, seed):
    rep = Report("C19", tier, seed)
    wd = tlc.scratch()
    r = tlc.run_tlc("MC_C19", workdir=wd, workers=16, timeout=3000)
    rep.add_tlc(r, "MC_C19: Once / PreBeforePost on the reference traversal; expected result and expected hook trace per state")
    if r.violated:
        raise tlc.MachineryError(f"model property violated on the reference spec: {r.violated}")
    recs = [p for p in r.printed if p[0] == "hook"]
    if tier == "quick":
        recs = recs[::2]
    ctx = mp.get_context("fork")
    with ctx.Pool(16) as pool:
        for out in pool.imap_unordered(_run, recs, chunksize=8):
            rep.count(out["n"])
            rep.cov["traces_validated_against_impl"] += out["n"]
            for m in out["mism"]:
                rep.violation(m["clause"], {**m, "channel": "R", "replay_module": "harness.checks.c19"})
    fams = [p for p in r.printed if p[0] == "hookd"]
    for p in fams:
        out = _run_fam(p)
        rep.count(out["n"])
        rep.cov["traces_validated_against_impl"] += out["n"]
        for m in out["mism"]:
            rep.violation(m["clause"], {**m, "channel": "R", "replay_module": "harness.checks.c19", "fam": p})
        if len(p[5]) >= 1:
            rep.nontrivial(hashlib.sha1(jkey(p[1:4]).encode()).hexdigest())
    for p in recs:
        if len(p[5]) >= 2:
            rep.nontrivial(hashlib.sha1(jkey(p[1:4]).encode()).hexdigest())
    for p in recs[:: max(1, len(recs) // 2)][:2]:
        rep.sample({"T": p[1], "direction": p[2], "argument": p[3], "expected_result": p[4], "expected_hook_trace": p[5]})
    rep.assumptions += ["reference hooks are fixed transformations of the identifying field n (pre_ser +1, post_ser x10, pre_deser +2, post_deser x3) that log (phase, class, n, context-is-the-callers)",
                        "speculative __pre_deserialize__ calls of failing union candidates are allowed (statement); speculative serialize hooks are not"]
    return rep.finish({"exhaustive": tier != "quick",
                       "rule": "4 hook subsets x context flag on Outer and Inner x hooked / unhooked union members, bare list / union / dict shapes, 2 values, both directions, "
                               "through to_dict/from_dict, 5 format mixins and the basic codec; non-trivial = expected trace has >= 2 events"})


def replay(rec, path):
    """re-run the recorded vector through the recorded entry point; the expectations are stored in the record"""
    global FORMATS
    if rec.get("fam"):
        out = _run_fam(rec["fam"])
        hit = [m for m in out["mism"] if m["clause"] == rec["clause"] and m["entry"] == rec.get("entry")]
        if hit:
            print("observed now:", json.dumps(hit[0]["actual"])[:600])
            print(f"VIOLATION property=C19 replay={path}")
            return 1
        print("no longer reproduces on the current tree")
        return 0
    T = with_mixin(rec["T"], "dict")
    exp_res = rec["expected"] if rec["clause"] == "hook-result" else None
    exp_trace = rec["expected"] if rec["clause"] == "hook-trace" else []
    saved = FORMATS
    FORMATS = [rec.get("entry", "dict")]
    try:
        out = _run(["hook", T, rec["direction"], rec["input"], exp_res, exp_trace])
    finally:
        FORMATS = saved
    hit = [m for m in out["mism"] if m["clause"] == rec["clause"]]
    if hit:
        print("observed now:", json.dumps(hit[0]["actual"])[:600])
        print(f"VIOLATION property=C19 replay={path}")
        return 1
    print("no longer reproduces on the current tree")
    return 0
