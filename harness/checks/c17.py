"""C17: generated code is closed and binds every type by identity.  Facts are recorded by the env-guarded
hooks in mashumaro/core/meta/_verif.py; TLC (spec/trace/NspTrace.tla) steps the namespace state machine
along them.  Model-level: spec/sys/Nsp.tla with fresh names satisfies BoundByIdentity, first-wins does not."""
from __future__ import annotations

import builtins
import dis
import hashlib
import json
import os
import types

from harness import core, gen, tlc
from harness.report import Report
from harness.terms import jkey


def loaded_names(code):
    """global names (and module-rooted attribute chains) loaded on ANY path of the code object and its nested code objects"""
    names, chains = set(), set()
    stack = [code]
    while stack:
        co = stack.pop()
        ins = list(dis.get_instructions(co))
        for i, it in enumerate(ins):
            if it.opname in ("LOAD_GLOBAL", "LOAD_NAME"):
                names.add(it.argval)
                chain = [it.argval]
                k = i + 1
                while k < len(ins) and ins[k].opname in ("LOAD_ATTR", "LOAD_METHOD"):
                    chain.append(ins[k].argval)
                    k += 1
                if len(chain) > 1:
                    chains.add(tuple(chain))
        for c in co.co_consts:
            if isinstance(c, types.CodeType):
                stack.append(c)
    return names, chains


def facts_from_events(events, label=""):
    """mashumaro _verif events -> trace events (pure projection)"""
    out = []
    compiled = []
    for i, (kind, d) in enumerate(events):
        if kind == "bind":
            obj, bound = d["obj"], d["bound"]
            out.append(["Bind", f"{label}b{i}", str(d["unit"]), d["name"], str(id(obj)), str(id(bound)),
                        isinstance(obj, type) and isinstance(bound, type) and not _is_holder(obj)])
        elif kind == "compile":
            compiled.append((i, d))
    # compile facts are resolved against the FINAL namespace (functions see later additions to their globals)
    for i, d in compiled:
        try:
            co = compile(d["code"], "<generated>", "exec")
        except SyntaxError:
            out.append(["Compile", f"{label}c{i}", str(id(d["globals"])), [["<syntax error>", False]], []])
            continue
        names, chains = loaded_names(co)
        g = d["globals"]
        defined_locally = {c.co_name for c in co.co_consts if isinstance(c, types.CodeType)}
        nf = []
        for n in sorted(names):
            ok = n in g or hasattr(builtins, n) or n in defined_locally or n in ("cls", "self", "decoder_obj", "encoder_obj")
            nf.append([n, bool(ok)])
        cf = []
        for ch in sorted(chains):
            base = g.get(ch[0], getattr(builtins, ch[0], None))
            if isinstance(base, types.ModuleType):
                okc = True
                cur = base
                for a in ch[1:]:
                    if not hasattr(cur, a):
                        okc = False
                        break
                    cur = getattr(cur, a)
                    if not isinstance(cur, (types.ModuleType, type)):
                        break
                cf.append([".".join(ch), okc])
        out.append(["Compile", f"{label}c{i}", str(id(g)), nf, cf])
    return out


def _is_holder(obj):
    return getattr(obj, "__name__", "").startswith("attrs_") or getattr(obj, "__name__", "") in ("AttrsHolder", "__root__")


def record_pool(pool):
    """build every subject (mixin classes compile at definition; codecs on creation) and exercise one round trip"""
    from mashumaro.core.meta import _verif
    from harness.real import Subject
    from harness.terms import concretize_value
    all_events = []
    subjects = 0
    runtime = []
    for gi, (T, values) in enumerate(pool):
        del _verif.events[:]
        try:
            s = Subject(T)
        except Exception:  # noqa: BLE001
            continue
        try:
            for v in values[:1]:
                try:
                    s.decode_py(s.encode_py(concretize_value(v, s.reg)))
                except Exception:  # noqa: BLE001
                    pass
                _exercise_format(s, v, runtime)
            subjects += 1
            evs = facts_from_events(list(_verif.events), label=f"g{gi}.")
            for e in evs:
                e.append(T)
            all_events.extend(evs)
            for k, msg in enumerate(runtime):
                all_events.append(["Compile", f"g{gi}.rt{k}", "runtime", [[msg, False]], [], T])
            del runtime[:]
        finally:
            s.close()
    return all_events, subjects


def _exercise_format(s, v, runtime):
    """first calls of the format methods of a format-mixin class: a NameError / AttributeError of the library's own making is a fact"""
    from harness.terms import concretize_value, get_opt
    T = s.T
    kind = get_opt(T[3], "mixin", "dict") if T[0] == "dc" else "dict"
    if kind in ("dict", "plain"):
        return
    from harness.checks.c04 import _fmt
    to_m, from_m, _e, _d, _p = _fmt(kind)
    try:
        data = getattr(concretize_value(v, s.reg), to_m)()
        getattr(s.ann, from_m)(data)
    except NameError as e:
        runtime.append(f"NameError at run time: {e}")
    except Exception as e:  # noqa: BLE001
        if "NameError" in repr(e) or "NameError" in repr(getattr(e, "__context__", "")):
            runtime.append(f"NameError at run time (wrapped): {getattr(e, '__context__', e)}")


def _record_shard(args):
    return record_pool(args)


def validate(events, wd, shards=8):
    import multiprocessing as mp
    from harness import trace
    # Bind events of one unit must stay together and in order: shard by subject label prefix
    groups = {}
    for e in events:
        groups.setdefault(e[1].split(".")[0], []).append(e)
    keys = sorted(groups)
    shards = max(1, min(shards, len(keys)))
    parts = [[] for _ in range(shards)]
    for i, k in enumerate(keys):
        parts[i % shards].extend(groups[k])
    jobs = []
    for k, part in enumerate(parts):
        path = os.path.join(wd, f"trace_nsp_{k}.ndjson")
        with open(path, "w") as fh:
            for e in part:
                fh.write(json.dumps(e[:7] if e[0] == "Bind" else e[:5]) + "\n")
        jobs.append(("NspTrace", wd, path, os.path.join(wd, "nofile"), {}, 2400))
    ctx = mp.get_context("fork")
    with ctx.Pool(len(jobs)) as pool:
        results = pool.map(trace._validate_one, jobs)
    bad = {}
    for r in results:
        for p in r.printed:
            if p and p[0] == "BAD":
                bad[p[1]] = p[2]
    return bad, results


def run(prop, tier, seed):
    import multiprocessing as mp
    if os.environ.get("MASHUMARO_VERIF") != "1":
        raise tlc.MachineryError("MASHUMARO_VERIF=1 must be set (hooks)")
    rep = Report("C17", tier, seed)
    wd = tlc.scratch()
    # ---- model level
    for mode, expect in (('"fresh"', False), ('"firstwins"', True)):
        try:
            rm = tlc.run_tlc("MC_C17", workdir=wd, workers=4, timeout=600, cfg_text=core.cfg_text("MC_C17.cfg", Mode=mode))
            viol = "BoundByIdentity" in rm.violated
            if not expect:
                rep.add_tlc(rm, "MC_C17 Mode=fresh: Closed, BoundByIdentity over all registration orders")
        except tlc.MachineryError as e:
            viol = "BoundByIdentity" in str(e)
        if mode == '"fresh"' and viol:
            raise tlc.MachineryError("Nsp.tla: BoundByIdentity violated with fresh names")
        if mode == '"firstwins"':
            rep.selftests["firstwins_namespace_refuted_by_TLC"] = viol
    # ---- recorded facts: grammar types (holder classes and bare codecs) + random deeper schemas + hand-written subjects
    from harness.checks.schema_props import type_pool
    pool = type_pool(wd, rep, tier)
    g = gen.Gen(seed, max_depth=3 if tier == "quick" else 4)
    for i in range(200 if tier == "quick" else 3000):
        T = g.dataclass(g.max_depth) if i % 2 else g.type()
        pool.append((T, [g.value(T)]))
    pool.extend(format_mixin_families())
    pool.extend(generic_foreign_families())
    nshards = 16
    ctx = mp.get_context("fork")
    with ctx.Pool(nshards) as p:
        res = p.map(_record_shard, [pool[i::nshards] for i in range(nshards)])
    events = []
    nsubj = 0
    for k, (evs, n) in enumerate(res):
        for e in evs:
            e[1] = f"s{k}x" + e[1]
        events.extend(evs)
        nsubj += n
    hand, hviol = hand_written()
    events.extend(hand)
    bad, results = validate(events, wd)
    for r_ in results:
        rep.add_tlc(r_, "NspTrace (namespace state machine stepped along recorded bind/compile facts)")
    rep.count(len(events))
    rep.cov["traces_validated_against_impl"] += len(events)
    byid = {e[1]: e for e in events}
    for e in events:
        if e[0] == "Compile":
            rep.nontrivial(hashlib.sha1(jkey([e[3], e[4]]).encode()).hexdigest())
    for eid, clauses in bad.items():
        e = byid[eid]
        for c in clauses:
            if c == "MODEL-DRIFT":
                rep.drift.append(f"{eid}: recorded binding contradicts the modelled first-wins namespace")
            else:
                rec = {"event": e[0], "T": e[-1], "replay_module": "harness.checks.c17"}
                if e[0] == "Bind":
                    rec.update({"name": e[3]})
                else:
                    rec.update({"unresolved": [n for n, ok in e[3] if not ok] + [n for n, ok in e[4] if not ok]})
                rep.violation(c, rec)
    for v in hviol:
        rep.violation(v["clause"], {**v, "replay_module": "harness.checks.c17"})
    comp = [e for e in events if e[0] == "Compile"]
    if comp:
        rep.sample({"event": "Compile", "names_loaded": comp[len(comp) // 2][3][:12], "T": comp[len(comp) // 2][-1]})
    binds = [e for e in events if e[0] == "Bind"]
    if binds:
        rep.sample({"event": "Bind", "name": binds[0][3], "is_type": binds[0][6]})
    rep.notes.append(f"subjects built with hooks on: {nsubj} (+ hand-written)")
    rep.assumptions += ["facts are a projection of what the builder did (hooks after setdefault / after exec) and of the generated code objects (names on ALL paths, executed or not)",
                        "names are resolved against the unit's final namespace and builtins; attribute chains are checked when rooted at a module"]
    return rep.finish({"exhaustive": False,
                       "rule": "every holder / bare type of the depth-1 grammar (quick: every 4th) + random deeper schemas + hand-written local / functional / same-named / "
                               "MappingProxyType / local-dialect subjects; distinct = distinct (loaded names, chains) fact sets"})


def format_mixin_families():
    """format-mixin parents (default dialect in play) with nested lazily compiled / forward-referenced / plain dataclasses:
    the lazy stubs of NESTED classes refer to the parent's format dialect by qualified name"""
    out = []
    for mixin in ("msgpack", "orjson", "toml", "yaml", "json"):
        for lazy in (False, True):
            for flags in ([], ["dialect_flag"]):
                cfg_in = ([["lazy", True]] if lazy else []) + ([["flags", flags]] if flags else [])
                inner = ["dc", "Inner", [["d", ["date"], ["req"], []], ["s", ["opt", ["str"]], ["val", ["none"]], []]], cfg_in]
                plain = ["dc", "PlainP", [["x", ["int"], ["req"], []]], [["mixin", "plain"]]]
                later = ["dc", "Later", [["y", ["int"], ["val", ["int", 1]], []]], cfg_in]
                outer = ["dc", "Outer", [["a", ["date"], ["req"], []], ["inner", inner, ["req"], []], ["items", ["list", inner], ["req"], []],
                                         ["p", plain, ["req"], []], ["l", ["opt", ["fwd", "Later", later]], ["val", ["none"]], []]],
                         [["mixin", mixin]] + ([["flags", flags]] if flags else [])]
                val = ["obj", "Outer", [["date", 2024, 2, 29], ["obj", "Inner", [["date", 2023, 1, 2], ["none"]]],
                                        ["list", [["obj", "Inner", [["date", 2022, 3, 4], ["str", "s"]]]]], ["obj", "PlainP", [["int", 1]]],
                                        ["obj", "Later", [["int", 5]]]]]
                out.append((outer, [val]))
    return out


def generic_foreign_families():
    """a generic dataclass Box[T] whose type variable is bound to a class living in ANOTHER top-level module than Box and
    its holder, and mentioned nowhere else: the generated code names that class by its module-qualified name"""
    out = []
    tv = ["tvar", "T"]
    item = ["dc", "Item", [["sku", ["str"], ["req"], []], ["n", ["int"], ["val", ["int", 1]], []]], [["mixin", "plain"], ["module", "shapes"]]]
    shade = ["enum", "Shade", "Enum", [["DARK", ["str", "d"]], ["LIGHT", ["str", "l"]]], [["module", "shapes"]]]
    for arg, val in ((item, ["obj", "Item", [["str", "k"], ["int", 2]]]), (shade, ["enum", "Shade", "DARK"])):
        for tfields, fields, vals in (
                ([["v", tv]], [["v", arg, ["req"], []]], [val]),
                ([["v", tv], ["o", ["opt", tv]]], [["v", arg, ["req"], []], ["o", ["opt", arg], ["val", ["none"]], []]], [val, ["none"]])):
            box = ["dc", "Box", fields, [["mixin", "plain"], ["generic", [["T"], [arg], tfields]]]]
            for lazy in (False, True):
                hold = ["dc", "FHold", [["b", box, ["req"], []]], [["lazy", True]] if lazy else []]
                out.append((hold, [["obj", "FHold", [["obj", "Box", vals]]]]))
            out.append((box, [["obj", "Box", vals]]))
    # a DEFAULT that is a member of an enum living in another module, on a field whose annotation does not name that enum
    # (priority: int = Priority.NORMAL), under omit_default from Config / Config.dialect / a call dialect only: the generated
    # comparison with the default must not need a name the generated function cannot reach
    prio = ["enum", "Prio", "IntEnum", [["LOW", ["int", 1]], ["HIGH", ["int", 2]]], [["module", "shapes"]]]
    mode = ["enum", "Mode", "StrEnum", [["ON", ["str", "on"]], ["OFF", ["str", "off"]]], [["module", "shapes"]]]
    for ftype, en, member in ((["int"], prio, "LOW"), (["str"], mode, "ON"), (["any"], prio, "HIGH")):
        for how in ("config", "cfg_dialect"):
            cfgo = {"config": [["omit_default", True]], "cfg_dialect": [["dialect", [["name", "OD"], ["omit_default", True]]]]}[how]
            for lazy in (False, True):
                hold = ["dc", "EHold", [["n", ["int"], ["req"], []], ["p", ftype, ["val", ["enum", en[1], member]], []]],
                        cfgo + ([["lazy", True]] if lazy else [])]
                other = ["int", 7] if ftype != ["str"] else ["str", "x"]
                # the enum is defined first (the shape names it), the holder refers to it through the default only
                out.append((["tuple", [en, hold]], [["tuple", [["enum", en[1], member], ["obj", "EHold", [["int", 1], other]]]]]))
    # PEP 585 spelling (list[X] / dict[str, X] / tuple[X, int]) of containers whose element class lives in ANOTHER module and is
    # mentioned nowhere else, on fields whose (de)serialization is overridden or passed through: the generated code still names
    # the annotation (error reporting paths), so the element's module must be reachable from the generated function
    item = ["dc", "Item", [["sku", ["str"], ["req"], []], ["n", ["int"], ["val", ["int", 1]], []]], [["mixin", "plain"], ["module", "shapes"]]]
    iv = ["obj", "Item", [["str", "k"], ["int", 2]]]
    for shape, val in ((["list", item], ["list", [iv]]), (["dict", ["str"], item], ["dict", [[["str", "a"], iv]]]), (["tuple", [item, ["int"]]], ["tuple", [iv, ["int", 3]]])):
        for fopts in ([["strategy", ["pass_through"]]], [["fdeser", ["mark", "pd", "deser"]]], [["fser", ["mark", "ps", "ser"]]], []):
            for lazy in (False, True):
                for spell in (True, False):
                    hold = ["dc", "PHold", [["items", shape, ["req"], fopts], ["k", ["int"], ["val", ["int", 0]], []]],
                            ([["lazy", True]] if lazy else []) + ([["pep585", True]] if spell else [])]
                    out.append((hold, []))
    return out


def hand_written():
    from mashumaro.core.meta import _verif
    from harness.checks import c17_subjects
    events, viol = [], []
    for k, (label, build) in enumerate(c17_subjects.subjects()):
        del _verif.events[:]
        try:
            cls, value, expected_types = build()
            d = value.to_dict()
            back = cls.from_dict(d)
            for f, t in expected_types.items():
                got = back
                for part in f.split("."):                       # "a.v": the attribute v of the attribute a; "[0]" indexes
                    got = got[int(part[1:-1])] if part.startswith("[") else getattr(got, part)
                if type(got) is not t:
                    viol.append({"clause": "wrong-class-instantiated", "T": ["hand-written", label], "field": f,
                                 "expected": repr(t), "actual": repr(type(got))})
            # error-reporting paths too
            for junk in ({}, {"m": 1}, None):
                try:
                    cls.from_dict(junk)
                except NameError as e:
                    viol.append({"clause": "nameerror-at-runtime", "T": ["hand-written", label], "actual": str(e)})
                except Exception:  # noqa: BLE001
                    pass
        except (NameError, AttributeError) as e:
            viol.append({"clause": "nameerror-at-runtime", "T": ["hand-written", label], "actual": f"{type(e).__name__}: {e}"[:200]})
        except Exception as e:  # noqa: BLE001
            viol.append({"clause": "subject-failed", "T": ["hand-written", label], "actual": f"{type(e).__name__}: {e}"[:200]})
        evs = facts_from_events(list(_verif.events), label=f"h{k}.")
        for e in evs:
            e.append(["hand-written", label])
        events.extend(evs)
    return events, viol


def replay(rec, path):
    T = rec.get("T")
    wd = tlc.scratch()
    if isinstance(T, list) and T and T[0] == "hand-written":
        evs, viol = hand_written()
        bad, _ = validate(evs, wd, shards=1)
        byid = {e[1]: e for e in evs}
        hit = [v for v in viol if v["clause"] == rec["clause"] and v["T"] == T] or \
              [k for k, cl in bad.items() if rec["clause"] in cl and byid[k][-1] == T]
    else:
        evs, _ = record_pool([(T, [])])
        bad, _ = validate(evs, wd, shards=1)
        hit = [k for k, cl in bad.items() if rec["clause"] in cl]
    if hit:
        print("observed now:", json.dumps(hit[0])[:300])
        print(f"VIOLATION property=C17 replay={path}")
        return 1
    print("no longer reproduces on the current tree")
    return 0
