"""C12: discriminated unions pick exactly the tagged class in any definition order."""
from __future__ import annotations

from harness import behave, core, tlc
from harness.report import Report
from harness.terms import jkey


def consts(site, wf, sup, shared=False, tagger="none"):
    dopts = ([["field", "type"]] if wf else []) + [["include_subtypes", True]] + ([["include_supertypes", True]] if sup else []) + ([["shared", "D1"]] if shared else []) \
        + ([["tagger", tagger]] if tagger != "none" else [])
    root = ["dc", "R", [["v", ["int"], ["req"], []]],
            [["classvars", [["type", ["str", "r"]]]]] + ([["discriminator", dopts], ["discr_field", "type"]] if site == "config" else [])]
    holder = ["dc", "HD", [["f", ["discr", ["opt", root] if site == "fieldopt" else ["list", root] if site == "fieldlist" else root, dopts], ["req"], []]], []]
    if site == "pair":
        root2 = ["dc", "R2", [["v", ["int"], ["req"], []]], [["classvars", [["type", ["str", "r2"]]]]]]
        holder = ["dc", "HD", [["f", ["tuple", [["discr", root, dopts], ["discr", root2, dopts]]], ["req"], []]], []]
    return dopts, root, holder


def histories(rep, wd, combos, maxlen, faults=False, clause=None, label_extra="", nested=False, shared=False, tagger="none"):
    """TLC enumerates every history of MC_C12 for the given sites; each is replayed against the real library"""
    for site, wf, sup in combos:
        ml = maxlen - 1 if site == "pair" else maxlen          # the pair site has 16 inputs x 4 definitions: one step shorter
        cfg = core.cfg_text("MC_C12.cfg", Site=f'"{site}"', WithField=wf, Supertypes=sup, MaxLen=ml, Faults=faults, Nested=nested, Shared=shared, Tagger=f'"{tagger}"')
        label = f"MC_C12 site={site} field={wf} supertypes={sup} nested={nested} len<={ml}{label_extra}: VariantChoice RegistrySound NoInheritedTag"
        if faults:
            r = core.run_mc_with_table("MC_C12", wd, [(["int"], [["str", "bad"]])], cfg=cfg, rep=rep, label=label, timeout=3000)
        else:
            r = tlc.run_tlc("MC_C12", workdir=wd, workers=16, timeout=3000, cfg_text=cfg)
            rep.add_tlc(r, label)
        if r.violated:
            raise tlc.MachineryError(f"model property violated on the reference spec: {r.violated}")
        behs = [p[1] for p in r.printed if p[0] == "beh"]
        dopts, root, holder = consts(site, wf, sup, shared, tagger)
        agg = behave.replay_c12(site, root, holder, dopts, behs)
        rep.count(agg["events"])
        rep.cov["traces_validated_against_impl"] += agg["behaviours"]
        for b in behs:
            if any(e[0] == "Define" for e in b) and any(e[0] == "Deserialize" for e in b):
                rep.nontrivial(jkey([site, wf, sup, b])[-300:] + str(hash(jkey(b))))
        for m in agg["mism"]:
            c = m["clause"]
            if clause is not None:
                # C05 reads the same histories for its own question: WHICH documented error surfaces, naming what
                exp, act = m["expected"], m["actual"]
                if exp[0] == "unknown":
                    rep.unmodelled += 1
                    continue
                if exp[0] == "ok":
                    c = "decode-rejects" if act[0] != "ok" else "decode"
                elif act[0] == "ok":
                    c = "decode-accepts"
                else:
                    c = "error-kind" if act[1][:1] != exp[1][:1] else "error-detail"
            rep.violation(c, {**m, "T": root, "channel": "R", "replay_module": "harness.checks.c12"})
        if behs:
            rep.sample({"site": site, "with_field": wf, "include_supertypes": sup, "behaviour": behs[len(behs) // 2]})


def run(prop, tier, seed):
    rep = Report("C12", tier, seed)
    wd = tlc.scratch()
    maxlen = 4 if tier == "quick" else 5
    combos = [(s, wf, sup) for s in ("config", "field", "codec") for wf in (True, False) for sup in (False, True)
              if not (s == "config" and sup)] + [("pair", True, False)]
    histories(rep, wd, combos, maxlen)
    # one Discriminator object shared with an unrelated class's Config (defined at any point of the history)
    histories(rep, wd, [("codec", True, True), ("field", True, True)], maxlen, shared=True, label_extra=" shared Discriminator object")
    # the Annotated that carries the Discriminator wraps the base indirectly (Optional / List)
    histories(rep, wd, [("fieldopt", True, False), ("fieldlist", True, False), ("fieldlist", False, True)], maxlen - 1, label_extra=" discriminator on an outer Annotated")
    # variant_tagger_fn: the tag of a class is what the function returns for it (one tag / a list of tags)
    for tg in ("one", "two"):
        histories(rep, wd, [("field", True, False), ("codec", True, True)] + ([("config", True, False)] if tg == "two" else []), maxlen - 1, tagger=tg,
                  label_extra=f" variant_tagger_fn={tg}")
    # two dispatch levels: a variant that declares its own class-level discriminator on another field
    histories(rep, wd, [(s, True, False) for s in ("config", "field", "codec")], maxlen, nested=True, label_extra=" nested levels")
    if tier != "quick":
        histories(rep, wd, [(s, True, False) for s in ("config", "field", "codec")], maxlen, faults=True, label_extra=" fault alphabet")
    # sensitivity of the model property: the deviant walk (direct subclasses only) must be refuted by TLC
    cfg = core.cfg_text("MC_C12.cfg", Site='"config"', WithField=True, Supertypes=False, MaxLen=4, Walk='"direct"')
    try:
        rd = tlc.run_tlc("MC_C12", workdir=wd, workers=4, timeout=600, cfg_text=cfg)
        rep.selftests["deviant_walk_refuted"] = "VariantChoice" in rd.violated
    except tlc.MachineryError as e:
        rep.selftests["deviant_walk_refuted"] = "VariantChoice" in str(e)
    cfg = core.cfg_text("MC_C12.cfg", Site='"pair"', WithField=True, Supertypes=False, MaxLen=4, RegMode='"shared"')
    try:
        rd = tlc.run_tlc("MC_C12", workdir=wd, workers=4, timeout=600, cfg_text=cfg)
        rep.selftests["shared_registry_of_equal_discriminators_refuted"] = "VariantChoice" in rd.violated
    except tlc.MachineryError as e:
        rep.selftests["shared_registry_of_equal_discriminators_refuted"] = "VariantChoice" in str(e)
    rep.assumptions += ["class-level (Config) discriminators cannot use include_supertypes (README) -- that combination is outside the model",
                        "tags are unique per hierarchy (the statement speaks of THE unique eligible class)",
                        "without a field the order among accepting subclasses is not claimed: any accepting subclass is accepted by the replayer"]
    return rep.finish({"exhaustive": True, "rule": "all histories of length <= MaxLen over Define(A|B|A1<A|X) / CreateDecoder / Deserialize(7-10 inputs) for 3 sites x field/no field x include_supertypes; "
                                                   "non-trivial = history with at least one Define and one Deserialize"})


def replay(rec, path):
    dopts, root, holder, site = rec["dopts"], rec["root"], rec["holder"], rec["site"]
    beh = [list(e) for e in rec["history"]]
    out = behave._run_c12((site, root, holder, dopts, beh))
    if out["mism"]:
        print("observed now:", out["mism"][0]["actual"])
        print(f"VIOLATION property=C12 replay={path}")
        return 1
    print("no longer reproduces on the current tree")
    return 0
