"""Channel V for the dataclass layer (C05 C07 C08 C09 C10 C13): seeded random CONFIGURED dataclass families (harness/cgen.py) are
driven through to_dict / from_dict with random keyword arguments and call dialects, several calls per class in random order
(so dialect caches, lazy stubs and nested on-demand compilation are exercised along histories); every call is recorded with
its options and judged by TLC (CoreTrace: Pack / Unpack under the call's context)."""
from __future__ import annotations

import hashlib
import json
import multiprocessing as mp

from harness import cgen, trace
from harness.terms import jkey

CLAUSES = {
    "C01": {"roundtrip"},
    "C02": {"wire", "encode-raises", "not-basic"},
    "C03": {"decode", "decode-accepts", "decode-rejects"},
    "C11": {"wire", "encode-raises", "decode", "decode-accepts", "decode-rejects"},
    "C15": {"wire", "encode-raises", "decode", "decode-accepts", "decode-rejects"},
    "C16": {"wire", "encode-raises", "decode", "decode-accepts", "decode-rejects", "build"},
    "C05": {"error-kind", "error-detail", "decode-accepts", "decode-rejects", "input-mutated"},
    "C07": {"decode", "decode-accepts", "decode-rejects", "error-kind", "error-detail"},
    "C08": {"wire", "encode-raises"},
    "C09": {"decode", "decode-accepts", "decode-rejects", "error-kind", "error-detail"},
    "C10": {"wire", "encode-raises", "decode", "decode-accepts", "decode-rejects"},
    "C13": {"wire", "encode-raises", "decode", "decode-accepts", "decode-rejects"},
}


def _record_family(args):
    gid, seed = args
    from harness.real import Subject
    g = cgen.ConfGen(seed)
    T = g.family()
    events = []
    try:
        subj = Subject(T)
    except Exception as e:  # noqa: BLE001
        return [["BuildFailed", f"k{gid}", T, ["exc", type(e).__name__, str(e)[:200]]]]
    try:
        values = [g.value(T) for _ in range(2)]
        calls = g.calls(T)
        n = 0
        wires = []
        for v in values:
            for c in calls:
                kw = {}
                for o in c:
                    kw[o[0]] = subj.dialect_for(o[1]) if o[0] == "dialect" else o[1]
                res = subj.encode(v, **kw)
                events.append(["Encode", f"k{gid}.e{n}", T, v, res, True, c])
                n += 1
                if res[0] == "ok" and not c:
                    wires.append(res[1])
                    back, _u = subj.decode(res[1])
                    events.append(["Round", f"k{gid}.r{n}", T, v, back, True, c])
        n = 0
        dcalls = [c for c in calls if all(o[0] == "dialect" for o in c)] or [[]]
        for w in wires[:2]:
            for j in g.inputs(T, w):
                c = g.r.choice(dcalls)
                kw = {o[0]: subj.dialect_for(o[1]) for o in c}
                res, unchanged = subj.decode(j, **kw)
                events.append(["Decode", f"k{gid}.d{n}", T, j, res, unchanged, c])
                n += 1
        # ---- codec entry points: the same (already compiled) classes inside shapes, with and without a default_dialect
        from harness.real import BasicDecoder, BasicEncoder, abstract_exception
        from harness.terms import abstract_value, concretize_type, concretize_value
        import copy as _copy
        n = 0
        # (the bare class and ONE enclosing shape: judging is the cost, and the two enclosing shapes take the same code path)
        for shape in (T, g.r.choice([["list", T], ["dict", ["str"], T]])):
            ann = concretize_type(shape, subj.reg)
            for dd in ([], g.dialect("DD1")):
                c = [["default_dialect", dd]] if dd else []
                kw = {"default_dialect": subj.dialect_for(dd)} if dd else {}
                try:
                    enc, dec = BasicEncoder(ann, **kw), BasicDecoder(ann, **kw)
                except Exception as e:  # noqa: BLE001
                    events.append(["BuildFailed", f"k{gid}.c{n}", shape, ["exc", type(e).__name__, str(e)[:200]]])
                    continue
                for v0 in (values if shape is T else values[:1]):
                    v = v0 if shape is T else (["list", [v0]] if shape[0] == "list" else ["dict", [[["str", "k"], v0]]])
                    x = concretize_value(v, subj.reg)
                    try:
                        w = enc.encode(x)
                        res = ["ok", abstract_value(w, subj.reg)]
                    except Exception as e:  # noqa: BLE001
                        res = abstract_exception(e, subj.reg)
                    events.append(["Encode", f"k{gid}.ce{n}", shape, v, res, True, c])
                    if res[0] == "ok":
                        try:
                            back = ["ok", abstract_value(dec.decode(_copy.deepcopy(w)), subj.reg)]
                        except Exception as e:  # noqa: BLE001
                            back = abstract_exception(e, subj.reg)
                        events.append(["Round", f"k{gid}.cr{n}", shape, v, back, True, c])
                        res2, unchanged = ["err", ["x"]], True
                        d = _copy.deepcopy(w)
                        before = _copy.deepcopy(d)
                        try:
                            res2 = ["ok", abstract_value(dec.decode(d), subj.reg)]
                        except Exception as e:  # noqa: BLE001
                            res2 = abstract_exception(e, subj.reg)
                        events.append(["Decode", f"k{gid}.cd{n}", shape, res[1], res2, d == before, c])
                    n += 1
    finally:
        subj.close()
    return events


def record(seed, n, procs=16):
    ctx = mp.get_context("fork")
    out = []
    with ctx.Pool(procs) as pool:
        for evs in pool.imap(_record_family, [(i, seed * 1000003 + i) for i in range(n)], chunksize=8):
            out.extend(evs)
    return out


def run_into(rep, prop, tier, seed):
    wanted = CLAUSES[prop]
    n = 200 if tier == "quick" else 1500
    # every property judges its own slice of the family space: a sweep over the properties covers twelve times the families of one check
    events = record(seed + 7919 * sorted(CLAUSES).index(prop), n)
    judged = [e for e in events if e[0] != "BuildFailed"]
    bad, results = trace.validate(judged, shards=16)
    for r_ in results:
        rep.add_tlc(r_, "CoreTrace (configured dataclass families: recorded to_dict / from_dict calls with keyword arguments and call dialects)")
    rep.count(len(judged))
    rep.cov["traces_validated_against_impl"] += len(judged)
    byid = {e[1]: e for e in events}
    for e in judged:
        rep.nontrivial(hashlib.sha1(jkey([e[0], e[2], e[3], e[6]]).encode()).hexdigest())
    for e in events:
        if e[0] == "BuildFailed":
            rep.violation("build", {"T": e[2], "actual": e[3], "channel": "V", "family": "configured"})
    for eid, (clauses, exp) in bad.items():
        e = byid[eid]
        for c in clauses:
            if c == "UNMODELLED":
                rep.unmodelled += 1
            elif c in wanted:
                rep.violation(c, {"T": e[2], "input": e[3], "expected": exp, "actual": e[4], "call": e[6], "channel": "V", "event": e[0],
                                  "family": "configured", "entry": "codec" if ".c" in e[1] else "mixin"})
    if judged:
        rep.sample({"channel": "V", "family": "configured", "event": judged[len(judged) // 2]})
    return len(judged)


if __name__ == "__main__":
    # development aid: print the distinct failing clauses on the current tree
    import sys
    from harness import tlc
    n = int(sys.argv[1]) if len(sys.argv) > 1 else 200
    evs = record(1, n)
    judged = [e for e in evs if e[0] != "BuildFailed"]
    print("events", len(judged), "build failures", len(evs) - len(judged))
    for e in evs:
        if e[0] == "BuildFailed":
            print("BUILD", json.dumps(e[3])[:200], json.dumps(e[2])[:600])
    bad, _ = trace.validate(judged, shards=16)
    byid = {e[1]: e for e in evs}
    shown = {}
    for eid, (cl, exp) in bad.items():
        for c in cl:
            shown.setdefault(c, []).append(eid)
    for c, ids in shown.items():
        print("==", c, len(ids))
        for eid in ids[:int(sys.argv[2]) if len(sys.argv) > 2 else 3]:
            e = byid[eid]
            print("  T   ", json.dumps(e[2])[:1500])
            print("  in  ", json.dumps(e[3])[:700])
            print("  call", json.dumps(e[6])[:300])
            print("  act ", json.dumps(e[4])[:700])
            print("  exp ", json.dumps(bad[eid][1])[:700])
    tlc.cleanup()
