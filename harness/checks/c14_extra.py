"""C14 beyond the sequential histories of MC_Sys: thread schedules (TLC-generated, forced; and free-running stress),
forward references (postponed evaluation) and order of first use across a family."""
from __future__ import annotations

import multiprocessing as mp
import sys
import threading

from harness import behave, core, tlc
from harness.terms import canon, terms_equal, wire_match

DATES = [["str", "%04d-02-28" % y] for y in (2019, 2020, 2021, 2022, 2023, 2024, 2025)]
TABLE = [(["date", "int", "str"], DATES + [["int", 5], ["str", "t"]]), (["bytes"], [["str", "AQL/\n"], ["str", "Cf8=\n"]])]


def _tables(wd, rep, **kw):
    r = core.run_mc_with_table("MC_Sys", wd, TABLE, cfg=core.cfg_text("MC_Sys.cfg", MaxLen=1, **kw), rep=None, timeout=600)
    return behave.SysTables(r.printed)


def _matches(t, n, direction, d, act):
    exp = t.calls[(n, direction, d, "dict", "none")]
    return wire_match(canon(exp), act) if direction == "to" else terms_equal(exp, act)


def forced_schedules(rep, tier, wd):
    from harness import sched
    r = tlc.run_tlc("MC_Threads", workdir=wd, workers=8, timeout=900,
                    cfg_text=core.cfg_text("MC_Threads.cfg", Thr="{1, 2, 3}" if tier != "quick" else "{1, 2, 3}"))
    rep.add_tlc(r, "MC_Threads: Faithful, NoStubToStub over all interleavings of 3 threads making the first call; every complete schedule exported")
    if r.violated:
        raise tlc.MachineryError(f"Threads.tla violated: {r.violated}")
    try:
        rd = tlc.run_tlc("MC_Threads", workdir=wd, workers=4, timeout=300, cfg_text=core.cfg_text("MC_Threads.cfg", Install='"delete-then-set"'))
        rep.selftests["delete_then_set_refuted_by_TLC"] = "Faithful" in rd.violated
    except tlc.MachineryError as e:
        rep.selftests["delete_then_set_refuted_by_TLC"] = "Faithful" in str(e)
    schedules = [p[1] for p in r.printed if p[0] == "schedule"]
    if tier == "quick":
        schedules = schedules[::3]
    t = _tables(wd, rep, LazyC=True)          # exactly one lazily compiled method per call: the modelled points are the only ones
    plans = [("to", "none"), ("from", "none")]
    n = desync = 0
    for si, s in enumerate(schedules):
        direction, d = plans[si % len(plans)]
        w = behave.World(t)
        try:
            w.define("C")
            jobs = {tid: (lambda: w.call("C", direction, d)) for tid in (1, 2, 3)}
            results, ds = sched.run_schedule(s, jobs)
            desync += ds
            n += 1
            for tid, (kind, val) in results.items():
                if kind != "ok" or not _matches(t, "C", direction, d, val):
                    rep.violation("thread-schedule", {"schedule": s, "thread": tid, "call": ["C", direction, d], "expected": t.calls[("C", direction, d, "dict", "none")],
                                                      "actual": val, "replay_module": "harness.checks.c14_extra"})
                    break
        finally:
            w.close()
    rep.count(n)
    rep.cov["traces_validated_against_impl"] += n
    rep.notes.append(f"forced schedules replayed: {n}; points at which the real run had fewer segments than the model (drift, not a verdict): {desync}")
    if schedules:
        rep.sample({"forced_schedule": schedules[0], "threads": 3, "call": "first to_dict()/from_dict() of a lazily compiled family"})


def stress(rep, tier, seed, wd):
    """free-running threads with a tiny switch interval; every thread's first call must give the eager outcome"""
    t = _tables(wd, rep, LazyC=True, LazyInner=True)
    old = sys.getswitchinterval()
    sys.setswitchinterval(1e-6)
    n = 0
    try:
        for rnd in range(60 if tier == "quick" else 600):
            w = behave.World(t)
            try:
                w.define("C")
                w.define("S")
                plan = [("C", "to", "none"), ("S", "from", "none"), ("C", "from", "D1"), ("S", "to", "D2")]
                out = {}
                barrier = threading.Barrier(len(plan))

                def body(i, call):
                    barrier.wait()
                    try:
                        out[i] = ("ok", w.call(*call))
                    except Exception as e:  # noqa: BLE001
                        out[i] = ("exc", f"{type(e).__name__}: {e}"[:200])
                ths = [threading.Thread(target=body, args=(i, c)) for i, c in enumerate(plan)]
                for th in ths:
                    th.start()
                for th in ths:
                    th.join(timeout=30)
                n += 1
                for i, call in enumerate(plan):
                    kind, val = out.get(i, ("exc", "thread did not finish"))
                    if kind != "ok" or not _matches(t, call[0], call[1], call[2], val):
                        rep.violation("thread-stress", {"call": list(call), "expected": t.calls[tuple(call) + ("dict", "none")], "actual": val, "round": rnd,
                                                        "replay_module": "harness.checks.c14_extra"})
                        return
            finally:
                w.close()
    finally:
        sys.setswitchinterval(old)
        rep.count(n)
        rep.cov["traces_validated_against_impl"] += n


def forward_refs(rep, tier):
    """postponed evaluation: A refers to B before B exists; every order of first use after B is defined gives the eager result"""
    import itertools
    from harness.checks import c14_subjects
    n = 0
    for order in itertools.permutations(["A.to", "A.from", "B.to", "B.from"]):
        res = c14_subjects.run_forward_family(order)
        n += 1
        if res is not None:
            rep.violation("postponed-evaluation", {"order": list(order), "actual": res, "expected": "same as the eager twin", "replay_module": "harness.checks.c14_extra"})
    for order in itertools.permutations(["int.to", "str.to", "int.from", "str.from"]):
        res = c14_subjects.run_generic_family(order)
        n += 1
        if res is not None:
            rep.violation("generic-specialisation-order", {"order": list(order), "actual": res, "expected": "same as a fresh family", "replay_module": "harness.checks.c14_extra"})
    # a parent compiled at its first call (lazy / postponed) that nests a class whose own annotations are not resolvable yet:
    # the nested class postpones ITSELF, exactly as under an eagerly compiled parent -- in every admissible order of first use
    allops = ["define", "none.to", "none.from", "full.to", "full.from"]
    for pm in ("eager", "lazy", "postponed"):
        for ik in ("plain", "mixin"):
            for fmt in ("dict", "json"):
                if ik == "plain" and fmt == "json" and tier == "quick":
                    continue
                for order in itertools.permutations(allops):
                    if order.index("define") > min(order.index("full.to"), order.index("full.from")):
                        continue
                    res = c14_subjects.run_nested_postponed_family(pm, ik, fmt, order)
                    n += 1
                    if res is not None:
                        rep.violation("postponed-evaluation", {"order": list(order), "family": ["nested-postponed", pm, ik, fmt], "actual": res,
                                                               "expected": "same as with an eagerly compiled parent", "replay_module": "harness.checks.c14_extra"})
    rep.count(n)
    rep.cov["traces_validated_against_impl"] += n


def _run_postponed(job):
    """one behaviour of sys/Postponed.tla in a fresh universe: Parent and Inner exist from the start (Inner's annotation names
    "Later" as a forward reference), DefineLater defines it at its own step, every call is compared with the outcome TLC emitted"""
    parent_t, inner_t, later_t, beh = job
    from mashumaro.exceptions import UnresolvedTypeReferenceError
    from harness.real import abstract_exception
    from harness.terms import Registry, abstract_value, concretize_type, concretize_value
    reg = Registry()
    reg.defer_fwd = True
    out = {"events": 0, "mism": []}
    try:
        P = concretize_type(parent_t, reg)
        for idx, ev in enumerate(beh):
            out["events"] += 1
            if ev[0] == "DefineLater":
                concretize_type(later_t, reg)
                continue
            op, arg, exp = ev[1], ev[2], ev[3]
            try:
                if op.endswith(".to"):
                    act = abstract_value(concretize_value(arg, reg).to_dict(), reg)
                    ok = exp[0] != "err" and wire_match(canon(exp), act)
                else:
                    act = ["ok", abstract_value(P.from_dict(concretize_value(arg, reg)), reg)]
                    ok = terms_equal(exp, act)
            except Exception as e:  # noqa: BLE001
                unresolved = isinstance(e, UnresolvedTypeReferenceError) or isinstance(e.__context__, UnresolvedTypeReferenceError) \
                    or isinstance(e.__cause__, UnresolvedTypeReferenceError)
                act = ["err", ["Unresolved"]] if unresolved else abstract_exception(e, reg)
                ok = exp == ["err", ["Unresolved"]] and unresolved
            if not ok:
                out["mism"].append({"clause": "postponed-evaluation", "step": idx, "history": beh[: idx + 1], "expected": exp, "actual": act,
                                    "family": ["Postponed", parent_t[3], inner_t[3]], "replay_module": "harness.checks.c14_extra"})
                break
    finally:
        reg.close()
    return out


def postponed_histories(rep, tier, wd):
    """sys/Postponed.tla: every history of calls and of the late definition, per (parent compiled eagerly / lazily) x (nested class
    plain / mixin); Faithful + NoRealToStub by TLC, every behaviour replayed; the deviant mechanism is refuted by TLC"""
    jobs = []
    ml = 4 if tier == "quick" else 5
    for pmode in ("eager", "lazy"):
        for ikind in ("plain", "mixin"):
            cfg = core.cfg_text("MC_Postponed.cfg", ParentMode=f'"{pmode}"', InnerKind=f'"{ikind}"', MaxLen=ml)
            r = core.run_mc_with_table("MC_Postponed", wd, [(["date", "int"], [["str", "2024-02-28"]])], cfg=cfg, rep=rep,
                                       label=f"MC_Postponed parent={pmode} nested={ikind} len<={ml}: Faithful NoRealToStub")
            if r.violated:
                raise tlc.MachineryError(f"model property violated on the reference spec: {r.violated}")
            jobs += [(p[1], p[2], p[3], p[4]) for p in r.printed if p[0] == "beh"]
    ctx = mp.get_context("fork")
    n = 0
    with ctx.Pool(16) as pool:
        for out in pool.imap_unordered(_run_postponed, jobs, chunksize=32):
            n += out["events"]
            for m in out["mism"]:
                rep.violation(m["clause"], m)
    rep.count(n)
    rep.cov["traces_validated_against_impl"] += len(jobs)
    import hashlib
    from harness.terms import jkey
    for j in jobs:
        rep.nontrivial(hashlib.sha1(jkey(list(j)).encode()).hexdigest())
    cfg = core.cfg_text("MC_Postponed.cfg", ParentMode='"lazy"', InnerKind='"plain"', MaxLen=3, Mech='"strict"')
    try:
        rd = core.run_mc_with_table("MC_Postponed", wd, [(["date", "int"], [["str", "2024-02-28"]])], cfg=cfg)
        rep.selftests["deviant_strict_nested_compilation_refuted"] = "Faithful" in rd.violated
    except tlc.MachineryError as e:
        rep.selftests["deviant_strict_nested_compilation_refuted"] = "Faithful" in str(e)


def registry_threads(rep, tier, seed, wd):
    """sys/RegistryThreads.tla (Faithful + Monotone by TLC, the clearing deviant refuted) and its binding: concurrent FIRST calls
    through a discriminated dispatch (class-level and Annotated-field sites, same / different tags), interleaved line by line
    of the generated code under seeded random schedules; every thread gets what the sequential call gives"""
    import random
    from harness import sched
    from harness.terms import Registry, abstract_value, concretize_type, concretize_value
    r = tlc.run_tlc("MC_RegistryThreads", workdir=wd, workers=4, timeout=300)
    rep.add_tlc(r, "MC_RegistryThreads: Faithful, Monotone over all interleavings of 3 threads x 2 tags")
    if r.violated:
        raise tlc.MachineryError(f"RegistryThreads.tla violated: {r.violated}")
    try:
        rd = tlc.run_tlc("MC_RegistryThreads", workdir=wd, workers=4, timeout=300,
                         cfg_text=core.cfg_text("MC_RegistryThreads.cfg", Refill='"clear-then-add"').replace("PROPERTY Monotone\n", ""))
        rep.selftests["clearing_registry_refuted_by_TLC"] = "Faithful" in rd.violated
    except tlc.MachineryError as e:
        rep.selftests["clearing_registry_refuted_by_TLC"] = "Faithful" in str(e)
    dopts = [["field", "type"], ["include_subtypes", True]]
    cv = lambda t: [["classvars", [["type", ["str", t]]]]]       # noqa: E731
    rf = [["v", ["int"], ["req"], []]]

    def family(site):
        root = ["dc", "R", rf, cv("r") + ([["discriminator", dopts], ["discr_field", "type"]] if site == "config" else [])]
        subs = [["dc", n, rf + [[f, ["int"], ["val", ["int", 0]], []]], [["bases", [root]]] + cv(t)] for n, f, t in (("A", "x", "a"), ("B", "y", "b"), ("C3", "z", "c"))]
        holder = ["dc", "HD", [["f", ["discr", root, dopts], ["req"], []]], []]
        return root, subs, holder
    rnd = random.Random(seed * 7 + 5)
    n = 0
    rounds = 150 if tier == "quick" else 1500
    for k in range(rounds):
        site = ("config", "field")[k % 2]
        tags = rnd.choice([("a", "b"), ("a", "a"), ("b", "c"), ("c", "a")])
        root, subs, holder = family(site)
        reg = Registry()
        try:
            R = concretize_type(root, reg)
            for s_ in subs:
                concretize_type(s_, reg)
            H = concretize_type(holder, reg) if site == "field" else None

            def call(tag, _R=R, _H=H):
                d = {"v": 1, "type": tag}
                return abstract_value(_R.from_dict(d) if _H is None else _H.from_dict({"f": d}), reg)
            schedule = [rnd.choice((1, 2)) for _ in range(rnd.choice((40, 80, 160)))]
            results, _ds = sched.run_line_schedule(schedule, {1: (lambda: call(tags[0])), 2: (lambda: call(tags[1]))})
            n += 1
            for tid in (1, 2):
                exp = call(tags[tid - 1])                       # the sequential call on the same (now warm) family
                kind, val = results.get(tid, ("exc", "thread did not finish"))
                if kind != "ok" or not terms_equal(val, exp):
                    rep.violation("thread-schedule", {"site": site, "tags": list(tags), "thread": tid, "schedule": schedule, "expected": exp, "actual": val,
                                                      "family": "discriminated first calls, line-level", "replay_module": "harness.checks.c14_extra"})
                    break
        finally:
            reg.close()
    rep.count(n)
    rep.cov["traces_validated_against_impl"] += n


def discriminated_first_use(rep, wd):
    """the per-format method of a discriminated variant is compiled on demand by whoever uses the variant first under that
    format -- the class-level dispatch or a holder nesting it: both orders give the reference round trip (MC_C04 dfvec records)"""
    from harness.checks import c04
    r = tlc.run_tlc("MC_C04", workdir=wd, workers=16, timeout=1800)
    rep.add_tlc(r, "MC_C04 (discriminated format families: expected documents; both orders of first use replayed)")
    if r.violated:
        raise tlc.MachineryError(f"model property violated on the reference spec: {r.violated}")
    c04.discr_families(rep, r.printed, clause_map={"format-roundtrip": "compilation-order", "format-document": None, "build": "build"})


def run(rep, tier, seed):
    wd = tlc.scratch()
    forced_schedules(rep, tier, wd)
    stress(rep, tier, seed, wd)
    forward_refs(rep, tier)
    postponed_histories(rep, tier, wd)
    registry_threads(rep, tier, seed, wd)
    discriminated_first_use(rep, wd)


def replay(rec, path):
    from harness.report import Report
    rep = Report("C14", "quick", 1)
    rep.known = []
    wd = tlc.scratch()
    if rec["clause"] == "thread-schedule":
        forced_schedules(rep, "thorough", wd)
    elif rec["clause"] == "thread-stress":
        stress(rep, "thorough", 1, wd)
    else:
        forward_refs(rep, "thorough")
    hit = [v for v in rep.violations if v["clause"] == rec["clause"]]
    if hit:
        print("observed now:", str(hit[0]["actual"])[:300])
        print(f"VIOLATION property=C14 replay={path}")
        return 1
    print("no longer reproduces on the current tree")
    return 0
