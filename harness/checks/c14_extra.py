"""C14 beyond MC_Sys: forward references (postponed evaluation), generic specialisations and threads."""
from __future__ import annotations


def run(rep, tier, seed):
    return 0
