"""Hand-written C14 families (real annotations, no 'from __future__ import annotations' magic):
a forward-referencing pair A <-> B compiled by postponed evaluation, and a generic Box[T] used at two specialisations."""
import dataclasses
import sys
import types
import typing
from datetime import date

from mashumaro import DataClassDictMixin

_n = [0]


def _module():
    _n[0] += 1
    name = f"mverif_c14_{_n[0]}"
    m = types.ModuleType(name)
    sys.modules[name] = m
    return m


def _make_forward(mod):
    """A is defined while B does not exist yet (compilation postponed), then B"""
    ns = {"__module__": mod.__name__, "__qualname__": "A", "__annotations__": {"d": date, "b": "typing.Optional[B]"}, "b": None}
    A = dataclasses.dataclass(type("A", (DataClassDictMixin,), ns))
    mod.A = A
    mod.typing = typing
    ns = {"__module__": mod.__name__, "__qualname__": "B", "__annotations__": {"x": int, "a": "typing.Optional[A]", "ds": "typing.List[date]"},
          "a": None, "ds": dataclasses.field(default_factory=list)}
    mod.date = date
    B = dataclasses.dataclass(type("B", (DataClassDictMixin,), ns))
    mod.B = B
    return A, B


def _ops(A, B):
    a = A(date(2024, 2, 28), B(1, A(date(2023, 1, 1)), [date(2020, 1, 1)]))
    b = B(2, A(date(2022, 2, 2), B(3)), [date(2021, 1, 1)])
    da = {"d": "2024-02-28", "b": {"x": 1, "a": {"d": "2023-01-01", "b": None}, "ds": ["2020-01-01"]}}
    db = {"x": 2, "a": {"d": "2022-02-02", "b": {"x": 3, "a": None, "ds": []}}, "ds": ["2021-01-01"]}
    return {"A.to": lambda: a.to_dict(), "A.from": lambda: dataclasses.asdict(A.from_dict(da)),
            "B.to": lambda: b.to_dict(), "B.from": lambda: dataclasses.asdict(B.from_dict(db))}


def run_forward_family(order):
    """returns None if every operation, executed in this order of first use, equals the reference order's result"""
    ref_mod = _module()
    try:
        ref = {k: f() for k, f in _ops(*_make_forward(ref_mod)).items()}        # reference order on a fresh family
    finally:
        sys.modules.pop(ref_mod.__name__, None)
    mod = _module()
    try:
        ops = _ops(*_make_forward(mod))
        for k in order:
            try:
                got = ops[k]()
            except Exception as e:  # noqa: BLE001
                return f"{k}: {type(e).__name__}: {e}"[:200]
            if got != ref[k]:
                return f"{k}: {got!r} != {ref[k]!r}"[:300]
    finally:
        sys.modules.pop(mod.__name__, None)
    return None


def _make_generic(mod):
    T = typing.TypeVar("T")
    ns = {"__module__": mod.__name__, "__qualname__": "Box", "__annotations__": {"v": T, "vs": typing.List[T]}}
    Box = dataclasses.dataclass(types.new_class("Box", (typing.Generic[T],), {}, lambda n: n.update(ns)))
    mod.Box = Box
    ns = {"__module__": mod.__name__, "__qualname__": "HI", "__annotations__": {"b": Box[int]}}
    HI = dataclasses.dataclass(type("HI", (DataClassDictMixin,), ns))
    ns = {"__module__": mod.__name__, "__qualname__": "HS", "__annotations__": {"b": Box[str]}}
    HS = dataclasses.dataclass(type("HS", (DataClassDictMixin,), ns))
    mod.HI, mod.HS = HI, HS
    return Box, HI, HS


def run_generic_family(order):
    def ops(Box, HI, HS):
        return {"int.to": lambda: HI(Box(1, [2])).to_dict(), "str.to": lambda: HS(Box("a", ["b"])).to_dict(),
                "int.from": lambda: dataclasses.asdict(HI.from_dict({"b": {"v": "1", "vs": ["2"]}})),
                "str.from": lambda: dataclasses.asdict(HS.from_dict({"b": {"v": 1, "vs": [2]}}))}
    expected = {"int.to": {"b": {"v": 1, "vs": [2]}}, "str.to": {"b": {"v": "a", "vs": ["b"]}},
                "int.from": {"b": {"v": 1, "vs": [2]}}, "str.from": {"b": {"v": "1", "vs": ["2"]}}}
    mod = _module()
    try:
        o = ops(*_make_generic(mod))
        for k in order:
            try:
                got = o[k]()
            except Exception as e:  # noqa: BLE001
                return f"{k}: {type(e).__name__}: {e}"[:200]
            if got != expected[k]:
                return f"{k}: {got!r} != {expected[k]!r}"
    finally:
        sys.modules.pop(mod.__name__, None)
    return None


def _make_nested_postponed(mod, parent_mode, inner_kind, fmt):
    """Parent(n: int, inner: Optional[Inner] = None) where Inner's own annotations name a class (Later) that does not exist yet.
    parent_mode: "eager" (compiled at definition: the nested Inner postpones itself), "lazy" (Config.lazy_compilation: compiled
    at the first call) or "postponed" (the parent has an unresolved annotation of its own, resolved before its first call).
    inner_kind: "plain" (no mixin) | "mixin".  fmt: "dict" | "json" (format methods of a mixin Inner are compiled on demand)."""
    from mashumaro.config import BaseConfig
    from mashumaro.mixins.json import DataClassJSONMixin
    base = DataClassJSONMixin if fmt == "json" else DataClassDictMixin
    mod.typing = typing
    ins = {"__module__": mod.__name__, "__qualname__": "Inner", "__annotations__": {"k": int, "later": "typing.Optional[Later]"}, "later": None}
    Inner = dataclasses.dataclass(type("Inner", () if inner_kind == "plain" else (base,), ins))
    mod.Inner = Inner
    ann = {"n": int, "inner": typing.Optional[Inner]}
    pns = {"__module__": mod.__name__, "__qualname__": "Parent", "inner": None}
    if parent_mode == "postponed":
        ann["soon"] = "typing.Optional[Soon]"
        pns["soon"] = None
    pns["__annotations__"] = ann
    if parent_mode == "lazy":
        pns["Config"] = type("Config", (BaseConfig,), {"lazy_compilation": True})
    Parent = dataclasses.dataclass(type("Parent", (base,), pns))
    mod.Parent = Parent
    if parent_mode == "postponed":
        mod.Soon = dataclasses.dataclass(type("Soon", (base,), {"__module__": mod.__name__, "__qualname__": "Soon", "__annotations__": {"z": int}}))

    def define_later():
        mod.Later = dataclasses.dataclass(type("Later", (base,), {"__module__": mod.__name__, "__qualname__": "Later", "__annotations__": {"d": date}}))
        return "defined"
    return Parent, Inner, define_later


def run_nested_postponed_family(parent_mode, inner_kind, fmt, order):
    """every order of the operations in which 'define' precedes the operations that need Later gives the documented results;
    operations on values WITHOUT a nested Inner never need Later (compilation timing must not matter: the eager twin returns them)"""
    import json as _json
    mod = _module()
    try:
        Parent, Inner, define_later = _make_nested_postponed(mod, parent_mode, inner_kind, fmt)
        soon = {"soon": None} if parent_mode == "postponed" else {}
        if fmt == "json":
            enc, dec = (lambda x: _json.loads(x.to_json())), (lambda d: Parent.from_json(_json.dumps(d)))
        else:
            enc, dec = (lambda x: x.to_dict()), Parent.from_dict
        ops = {
            "define": define_later,
            "none.to": lambda: enc(Parent(1)),
            "none.from": lambda: dataclasses.asdict(dec({"n": 2})),
            "full.to": lambda: enc(Parent(3, Inner(4, mod.Later(date(2024, 2, 28))))),
            "full.from": lambda: dataclasses.asdict(dec({"n": 5, "inner": {"k": 6, "later": {"d": "2023-01-02"}}})),
        }
        expected = {
            "define": "defined",
            "none.to": {"n": 1, "inner": None, **soon},
            "none.from": {"n": 2, "inner": None, **soon},
            "full.to": {"n": 3, "inner": {"k": 4, "later": {"d": "2024-02-28"}}, **soon},
            "full.from": {"n": 5, "inner": {"k": 6, "later": {"d": date(2023, 1, 2)}}, **soon},
        }
        for k in order:
            try:
                got = ops[k]()
            except Exception as e:  # noqa: BLE001
                return f"{k}: {type(e).__name__}: {e}"[:200]
            if got != expected[k]:
                return f"{k}: {got!r} != {expected[k]!r}"[:300]
    finally:
        sys.modules.pop(mod.__name__, None)
    return None
