"""Hand-written C14 families (real annotations, no 'from __future__ import annotations' magic):
a forward-referencing pair A <-> B compiled by postponed evaluation, and a generic Box[T] used at two specialisations."""
import dataclasses
import sys
import types
import typing
from datetime import date

from mashumaro import DataClassDictMixin

_n = [0]


def _module():
    _n[0] += 1
    name = f"mverif_c14_{_n[0]}"
    m = types.ModuleType(name)
    sys.modules[name] = m
    return m


def _make_forward(mod):
    """A is defined while B does not exist yet (compilation postponed), then B"""
    ns = {"__module__": mod.__name__, "__qualname__": "A", "__annotations__": {"d": date, "b": "typing.Optional[B]"}, "b": None}
    A = dataclasses.dataclass(type("A", (DataClassDictMixin,), ns))
    mod.A = A
    mod.typing = typing
    ns = {"__module__": mod.__name__, "__qualname__": "B", "__annotations__": {"x": int, "a": "typing.Optional[A]", "ds": "typing.List[date]"},
          "a": None, "ds": dataclasses.field(default_factory=list)}
    mod.date = date
    B = dataclasses.dataclass(type("B", (DataClassDictMixin,), ns))
    mod.B = B
    return A, B


def _ops(A, B):
    a = A(date(2024, 2, 28), B(1, A(date(2023, 1, 1)), [date(2020, 1, 1)]))
    b = B(2, A(date(2022, 2, 2), B(3)), [date(2021, 1, 1)])
    da = {"d": "2024-02-28", "b": {"x": 1, "a": {"d": "2023-01-01", "b": None}, "ds": ["2020-01-01"]}}
    db = {"x": 2, "a": {"d": "2022-02-02", "b": {"x": 3, "a": None, "ds": []}}, "ds": ["2021-01-01"]}
    return {"A.to": lambda: a.to_dict(), "A.from": lambda: dataclasses.asdict(A.from_dict(da)),
            "B.to": lambda: b.to_dict(), "B.from": lambda: dataclasses.asdict(B.from_dict(db))}


def run_forward_family(order):
    """returns None if every operation, executed in this order of first use, equals the reference order's result"""
    ref_mod = _module()
    try:
        ref = {k: f() for k, f in _ops(*_make_forward(ref_mod)).items()}        # reference order on a fresh family
    finally:
        sys.modules.pop(ref_mod.__name__, None)
    mod = _module()
    try:
        ops = _ops(*_make_forward(mod))
        for k in order:
            try:
                got = ops[k]()
            except Exception as e:  # noqa: BLE001
                return f"{k}: {type(e).__name__}: {e}"[:200]
            if got != ref[k]:
                return f"{k}: {got!r} != {ref[k]!r}"[:300]
    finally:
        sys.modules.pop(mod.__name__, None)
    return None


def _make_generic(mod):
    T = typing.TypeVar("T")
    ns = {"__module__": mod.__name__, "__qualname__": "Box", "__annotations__": {"v": T, "vs": typing.List[T]}}
    Box = dataclasses.dataclass(types.new_class("Box", (typing.Generic[T],), {}, lambda n: n.update(ns)))
    mod.Box = Box
    ns = {"__module__": mod.__name__, "__qualname__": "HI", "__annotations__": {"b": Box[int]}}
    HI = dataclasses.dataclass(type("HI", (DataClassDictMixin,), ns))
    ns = {"__module__": mod.__name__, "__qualname__": "HS", "__annotations__": {"b": Box[str]}}
    HS = dataclasses.dataclass(type("HS", (DataClassDictMixin,), ns))
    mod.HI, mod.HS = HI, HS
    return Box, HI, HS


def run_generic_family(order):
    def ops(Box, HI, HS):
        return {"int.to": lambda: HI(Box(1, [2])).to_dict(), "str.to": lambda: HS(Box("a", ["b"])).to_dict(),
                "int.from": lambda: dataclasses.asdict(HI.from_dict({"b": {"v": "1", "vs": ["2"]}})),
                "str.from": lambda: dataclasses.asdict(HS.from_dict({"b": {"v": 1, "vs": [2]}}))}
    expected = {"int.to": {"b": {"v": 1, "vs": [2]}}, "str.to": {"b": {"v": "a", "vs": ["b"]}},
                "int.from": {"b": {"v": 1, "vs": [2]}}, "str.from": {"b": {"v": "1", "vs": ["2"]}}}
    mod = _module()
    try:
        o = ops(*_make_generic(mod))
        for k in order:
            try:
                got = o[k]()
            except Exception as e:  # noqa: BLE001
                return f"{k}: {type(e).__name__}: {e}"[:200]
            if got != expected[k]:
                return f"{k}: {got!r} != {expected[k]!r}"
    finally:
        sys.modules.pop(mod.__name__, None)
    return None
