"""C20: the JSON Schema builder context as a state machine (spec/sys/SchemaCtx.tla, MC_SchemaCtx).
TLC enumerates every sequence of build / one-shot calls for each builder configuration and exports the expected
references and collected definitions after every step; each behaviour is replayed against the real builder."""
from __future__ import annotations

import multiprocessing as mp

from harness import core, tlc
from harness.terms import jkey

DIALECTS = ("draft", "openapi")
ALLREFS = ("unset", "yes", "no")
PREFIXES = ("unset", "#/components/responses", "#/x/")


def split_ref(r):
    i = r.rfind("/")
    return [r[:i], r[i + 1:]] if i >= 0 else ["", r]


def refs_in(doc, acc=None, skip=("$defs",)):
    acc = [] if acc is None else acc
    if isinstance(doc, dict):
        if isinstance(doc.get("$ref"), str):
            acc.append(split_ref(doc["$ref"]))
        for k, v in doc.items():
            if k not in skip:
                refs_in(v, acc, ())
    elif isinstance(doc, list):
        for v in doc:
            refs_in(v, acc, ())
    return acc


def canon_refs(rs):
    return sorted({jkey(list(r)) for r in rs})


def _run(job):
    dialect, allrefs, prefix, beh = job
    from harness.terms import Registry, concretize_type
    from mashumaro.jsonschema import JSONSchemaBuilder, build_json_schema
    from mashumaro.jsonschema.dialects import DRAFT_2020_12, OPEN_API_3_1
    d = DRAFT_2020_12 if dialect == "draft" else OPEN_API_3_1
    kw = {}
    if allrefs != "unset":
        kw["all_refs"] = allrefs == "yes"
    if prefix != "unset":
        kw["ref_prefix"] = prefix
    reg = Registry()
    out = {"events": 0, "mism": []}
    try:
        b = JSONSchemaBuilder(dialect=d, **kw)
        for idx, ev in enumerate(beh):
            out["events"] += 1
            ann = concretize_type(ev[1], reg)
            try:
                if ev[0] == "Build":
                    exp_out, exp_defs = ev[2], ev[3]
                    doc = b.build(ann).to_dict()
                    defs = b.get_definitions().to_dict()
                    embedded = None
                elif ev[0] == "Shared":
                    # a one-off call that shares the builder's context and overrides ONE setting for itself
                    ov, exp_out, exp_defs = ev[2], ev[3], ev[4]
                    okw = {"inline": {"all_refs": False}, "refs": {"all_refs": True}, "prefix": {"ref_prefix": "#/y/"}}[ov]
                    doc = build_json_schema(ann, context=b.context, with_definitions=False, **okw).to_dict()
                    defs = b.get_definitions().to_dict()
                    embedded = None
                else:
                    wd, exp_out, exp_defs = ev[2], ev[3], ev[4]
                    doc = build_json_schema(ann, dialect=d, with_definitions=wd, **kw).to_dict()
                    defs = doc.get("$defs", {})
                    embedded = "$defs" in doc
            except Exception as e:  # noqa: BLE001
                out["mism"].append({"clause": "build-raises", "step": idx, "history": beh[: idx + 1], "actual": [type(e).__name__, str(e)[:160]],
                                    "cfg": [dialect, allrefs, prefix]})
                break
            act_out = canon_refs(refs_in(doc))
            want_out = canon_refs(exp_out)
            exp_defs = exp_defs if isinstance(exp_defs, dict) else {}
            problems = []
            if act_out != want_out:
                problems.append(("ref-outside-context" if {r.split('"')[1] for r in act_out} != {r.split('"')[1] for r in want_out} else "dangling-ref",
                                 {"refs_in_schema": act_out, "expected": want_out}))
            if ev[0] in ("Build", "Shared") or ev[2]:
                if sorted(defs) != sorted(exp_defs):
                    problems.append(("defs-not-monotone", {"definitions": sorted(defs), "expected": sorted(exp_defs)}))
                else:
                    for n in defs:
                        a, w = canon_refs(refs_in(defs[n])), canon_refs(exp_defs[n])
                        if a != w:
                            problems.append(("ref-outside-context", {"definition": n, "refs": a, "expected": w}))
            elif embedded:
                problems.append(("defs-not-monotone", {"definitions": "embedded although with_definitions=False"}))
            if problems:
                for c, detail in problems[:1]:
                    out["mism"].append({"clause": c, "step": idx, "history": beh[: idx + 1], "actual": detail, "cfg": [dialect, allrefs, prefix]})
                break
    finally:
        reg.close()
    return out


def configs(tier):
    for dl in DIALECTS:
        for ar in ALLREFS:
            for px in PREFIXES:
                yield dl, ar, px


def run_into(rep, tier, wd=None):
    wd = wd or tlc.scratch()
    jobs = []
    for dl, ar, px in configs(tier):
        refmode = (dl == "openapi") if ar == "unset" else ar == "yes"
        ml = (3 if refmode and px != "unset" else 2) if tier == "quick" else (4 if refmode and px != "unset" else 3)
        cfg = core.cfg_text("MC_SchemaCtx.cfg", Dialect=f'"{dl}"', AllRefs=f'"{ar}"', Prefix=f'"{px}"', MaxLen=ml)
        r = tlc.run_tlc("MC_SchemaCtx", workdir=wd, workers=4 if tier == "quick" else 16, timeout=1800, cfg_text=cfg)
        rep.add_tlc(r, f"MC_SchemaCtx dialect={dl} all_refs={ar} ref_prefix={px} len<={ml}: PrefixRespected RefsClosed InlineCollectsNothing CollectsReachable DefsMonotone")
        if r.violated:
            raise tlc.MachineryError(f"model property violated on the reference spec: {r.violated}")
        for p in r.printed:
            if p[0] == "beh":
                jobs.append((dl, ar, px, p[1]))
    ctx = mp.get_context("fork")
    n = 0
    with ctx.Pool(16) as pool:
        for out in pool.imap_unordered(_run, jobs, chunksize=32):
            n += out["events"]
            for m in out["mism"]:
                rep.violation(m["clause"], {**m, "T": m["history"][-1][1], "channel": "R", "replay_module": "harness.checks.schema_ctx", "prop": "C20"})
    rep.count(n)
    rep.cov["traces_validated_against_impl"] += len(jobs)
    for j in jobs[:: max(1, len(jobs) // 400)]:
        rep.nontrivial(jkey(list(j))[-200:] + str(hash(jkey(list(j)))))
    if jobs:
        rep.sample({"channel": "R", "builder_config": list(jobs[len(jobs) // 2][:3]), "behaviour": jobs[len(jobs) // 2][3]})
    # sensitivity: the deviant mechanism (already collected => default pointer, not walked again) must be refuted by TLC
    cfg = core.cfg_text("MC_SchemaCtx.cfg", Dialect='"draft"', AllRefs='"yes"', Prefix='"#/x/"', MaxLen=2, Mode='"fastpath"')
    try:
        rd = tlc.run_tlc("MC_SchemaCtx", workdir=wd, workers=4, timeout=600, cfg_text=cfg)
        rep.selftests["deviant_fastpath_refuted"] = "PrefixRespected" in rd.violated
    except tlc.MachineryError as e:
        rep.selftests["deviant_fastpath_refuted"] = "PrefixRespected" in str(e)
    return len(jobs)


def replay(rec, path):
    dl, ar, px = rec["cfg"]
    out = _run((dl, ar, px, [list(e) for e in rec["history"]]))
    if out["mism"]:
        print("observed now:", out["mism"][0]["actual"])
        print(f"VIOLATION property=C20 replay={path}")
        return 1
    print("no longer reproduces on the current tree")
    return 0
