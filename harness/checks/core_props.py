"""C01 / C02 / C03: basic-form round trip, documented wire form, documented coercions."""
from __future__ import annotations

import json
import os

from harness import core, gen, tlc, trace
from harness.report import Report
from harness.terms import jkey

CLAUSES = {
    "C01": {"roundtrip", "build"},
    "C02": {"wire", "encode-raises", "json-dumps", "not-basic", "build"},
    "C03": {"decode", "decode-accepts", "decode-rejects", "ill-typed", "build", "decode-format"},
}
MODEL_INVARIANTS = {"C01": "RoundTrip", "C02": "BasicForm", "C03": "WellTyped"}


def run(prop: str, tier: str, seed: int) -> int:
    rep = Report(prop, tier, seed)
    wanted = CLAUSES[prop]
    wd = tlc.scratch()
    ctor_path, r0 = core.build_ctor_table(wd)
    rep.add_tlc(r0, "MC_Core depth 0 (leaf wire forms + foreign input universe -> stdlib Ctor table)")
    depths = [1] if tier == "quick" else [1, 2]
    for d in depths:
        r = tlc.run_tlc("MC_Core", workdir=wd, workers=16, timeout=3000,
                        cfg_text=core.cfg_text("MC_Core.cfg", Depth=d, Emit=True, Foreign=(prop == "C03" or d == 1)),
                        env={"CTOR_FILE": ctor_path})
        rep.add_tlc(r, f"MC_Core depth {d}: invariants Conforming BasicForm RoundTrip WellTyped on the reference model; one vector per state")
        if r.violated:
            # the documented semantics itself is inconsistent: machinery / spec problem, never a library violation
            raise tlc.MachineryError(f"model theorem violated on the reference spec: {r.violated}")
        if d == 1:
            core.assert_families(r.printed, {"H", "PH", "FH", "Drawing", "Circle", "GH", "Box", "FHold", "Item", "ItemL", "SNH", "Node", "Pair", "NH", "M3", "G3", "SP"},
                                 "MC_Core depth 1", rep)
        agg = core.replay(r.printed)
        rep.count(agg["n"])
        rep.cov["traces_validated_against_impl"] += agg["n"]
        rep.unmodelled += agg["unknown"]
        for k in agg["nontrivial"]:
            rep.nontrivial(k)
        for m in agg["mism"]:
            if m["clause"] in wanted:
                rep.violation(m["clause"], {**m, "channel": "R", "depth": d})
        for rec in r.printed[:: max(1, len(r.printed) // 3)][:3]:
            rep.sample({"channel": "R", "vector": rec})
    # ---- named tuples under every namedtuple_as_dict / engine combination (MC_NT)
    rn = core.run_mc("MC_NT", wd, rep=rep, label="MC_NT: named-tuple fields x namedtuple_as_dict (Config / Config.dialect) x field engines; RoundTrip")
    if rn.violated:
        raise tlc.MachineryError(f"model theorem violated on the reference spec: {rn.violated}")
    agg = core.replay(rn.printed)
    rep.count(agg["n"])
    rep.cov["traces_validated_against_impl"] += agg["n"]
    for m in agg["mism"]:
        if m["clause"] in wanted:
            rep.violation(m["clause"], {**m, "channel": "R", "family": "MC_NT"})
    if prop == "C02":
        # "a format dialect leaves exactly its declared native types unconverted ... and nothing else differs": the parsed
        # document of every format mixin / codec over the MC_C04 shape universe (converted map keys included)
        from harness.checks import c04
        c04.format_vectors(rep, tier, wanted={"format-document", "format-encode-raises"})
        # format dialects leave exactly their native types unconverted -- also on the FIRST call of a lazily compiled format mixin
        from harness.checks import sys_props
        sys_props.run_into(rep, "C02", tier, seed)
    if prop == "C03":
        from harness.checks import sys_props
        sys_props.run_into(rep, "C03", tier, seed)
    if prop == "C01":
        # the round trip does not depend on which format used a call dialect first (sys/Mashumaro.tla histories on a format mixin)
        from harness.checks import sys_props
        sys_props.run_into(rep, "C01", tier, seed)
    # ---- configured dataclass families: mixin and codec entry points with and without a default_dialect (lossless int strategies)
    from harness.checks import conf_props
    conf_props.run_into(rep, prop, tier, seed)
    # ---- channel V: random deeper schemas, judged by TLC against the same operators
    # C03's thorough run met a false alarm of the MODEL at depth 5 (a set of Decimals given both "1.50" and 1.5: one member in
    # Python, two distinct terms in the model's sets, DESIGN 12.6), so for C03 the random part keeps the quick tier's bounds
    deep = tier != "quick" and prop != "C03"
    g = gen.Gen(seed, max_depth=5 if deep else 4)
    ngroups = 15000 if deep else 1500
    groups = []
    for i in range(ngroups):
        T = g.type()
        if i % 3 == 0 and T[0] != "dc":
            T = g.dataclass(3)
        vs = [g.value(T) for _ in range(3)]
        groups.append((T, vs, []))
    events = trace.record(groups)
    if prop == "C03":
        # foreign inputs: wire forms of OTHER values of related types + single-subterm corruptions
        events = [e for e in events if e[0] != "Round"]
        dec = []
        mut = gen.Mutator(seed)
        for e in events:
            if e[0] == "Encode" and e[4][0] == "ok":
                for k, j in enumerate(mut.variants(e[4][1], 2)):
                    dec.append((e[2], j, e[1] + f"m{k}"))
        events = events + trace.record_decodes(dec)
    bad, results = trace.validate(events, shards=16)
    for r in results:
        rep.add_tlc(r, "CoreTrace (trace validation of recorded executions)")
    rep.cov["traces_validated_against_impl"] += len(events)
    rep.count(len(events))
    byid = {e[1]: e for e in events}
    for e in events:
        if e[0] == "BuildFailed" and "build" in wanted:
            rep.violation("build", {"T": e[2], "actual": e[3], "channel": "V"})
        elif e[0] != "BuildFailed":
            rep.nontrivial(__import__("hashlib").sha1(jkey(e[2:4]).encode()).hexdigest())
    excluded = 0
    for eid, (clauses, exp) in bad.items():
        e = byid[eid]
        for c in clauses:
            if c == "UNMODELLED":
                rep.unmodelled += 1
            elif c == "LOSSY-EXCLUDED":
                excluded += 1
            elif c in wanted:
                rep.violation(c, {"T": e[2], "input": e[3], "expected": exp, "actual": e[4], "channel": "V", "event": e[0]})
    rep.sample({"channel": "V", "event": events[len(events) // 2]})
    rep.notes.append(f"round-trip events excluded because the reference itself is lossy there (statement's exclusions): {excluded}")
    rep.assumptions += [
        "reference operators spec/ref/{Pack,Unpack,Leaf}.tla transcribe README + property statements (DESIGN.md App. A)",
        "leaf constructors/parsers come from the Python standard library via the Ctor table (harness/ctor.py)",
        "bridge harness/terms.py translates terms <-> objects without expectations",
    ]
    code = rep.finish({"exhaustive": False,
                       "rule": "TLC enumerates every (type, sample value) and (type, foreign input) of the bounded grammar in "
                               "spec/ref/Gen.tla; seeded random deeper schemas are recorded and judged by TLC. distinct = distinct "
                               "(type, input) pairs; non-trivial = value/input term longer than a bare scalar"})
    return code
