"""C04: format codecs are lossless and equal the format encoding of the basic form."""
from __future__ import annotations

import hashlib
import json
import multiprocessing as mp

from harness import core, tlc
from harness.report import Report
from harness.terms import canon, eqform, jkey, terms_pyeq, wire_match


def _fmt(fname):
    import msgpack
    import orjson
    import tomllib
    import yaml
    from mashumaro.codecs import json as cj, msgpack as cm, orjson as co, toml as ct, yaml as cy
    return {
        "json": ("to_json", "from_json", cj.JSONEncoder, cj.JSONDecoder, json.loads),
        "orjson": ("to_jsonb", "from_json", co.ORJSONEncoder, co.ORJSONDecoder, orjson.loads),
        "yaml": ("to_yaml", "from_yaml", cy.YAMLEncoder, cy.YAMLDecoder, yaml.safe_load),
        "msgpack": ("to_msgpack", "from_msgpack", cm.MessagePackEncoder, cm.MessagePackDecoder, lambda b: msgpack.unpackb(b, raw=False)),
        "toml": ("to_toml", "from_toml", ct.TOMLEncoder, ct.TOMLDecoder, tomllib.loads),
    }[fname]


def _run_group(args):
    fname, T, recs = args
    from harness.real import Subject
    from harness.terms import abstract_value, concretize_value, get_opt
    out = {"n": 0, "mism": []}
    to_m, from_m, Enc, Dec, parse = _fmt(fname)
    try:
        subj = Subject(T)
    except Exception as e:  # noqa: BLE001
        out["mism"].append({"clause": "build", "T": T, "format": fname, "actual": ["exc", type(e).__name__, str(e)[:200]]})
        return out
    plain = get_opt(T[3], "mixin") == "plain"
    # a codec object may be given a default_dialect: one that customises nothing the subject contains (a strategy for an unrelated
    # private type, no option set) is layered OVER the format's own dialect and must change nothing -- same documents expected
    variants = [None]
    if plain:
        from mashumaro.dialect import Dialect
        from mashumaro.helper import pass_through

        class _Unrelated:
            pass

        class Neutral(Dialect):
            serialization_strategy = {_Unrelated: pass_through}

        class Empty(Dialect):
            pass
        variants = [None, Neutral, Empty]
    try:
        for dd in variants:
            enc = dec = None
            ddkw = {} if dd is None else {"default_dialect": dd}
            ddname = getattr(dd, "__name__", None)
            for rec in recs:
                _, _f, _T, v, doc_exp = rec
                out["n"] += 1
                x = concretize_value(v, subj.reg)
                try:
                    if plain:
                        enc = enc or Enc(subj.ann, **ddkw)
                        dec = dec or Dec(subj.ann, **ddkw)
                        data = enc.encode(x)
                    else:
                        data = getattr(x, to_m)()
                    parsed = abstract_value(parse(data), subj.reg)
                except Exception as e:  # noqa: BLE001
                    out["mism"].append({"clause": "format-encode-raises", "T": T, "format": fname, "input": v, "expected": doc_exp,
                                        "default_dialect": ddname, "actual": ["exc", type(e).__name__, str(e)[:200]]})
                    continue
                # "yields exactly the basic-form serialization": Python equality of documents (mapping order is not part of it;
                # PyYAML sorts keys on dump)
                if not wire_match(eqform(canon(doc_exp)), eqform(parsed)):
                    out["mism"].append({"clause": "format-document", "T": T, "format": fname, "input": v, "expected": doc_exp, "actual": parsed,
                                        "default_dialect": ddname})
                try:
                    y = dec.decode(data) if plain else getattr(subj.ann, from_m)(data)
                    back = ["ok", abstract_value(y, subj.reg)]
                except Exception as e:  # noqa: BLE001
                    back = ["exc", type(e).__name__, str(e)[:200]]
                if back[0] != "ok" or not terms_pyeq(back[1], v):
                    out["mism"].append({"clause": "format-roundtrip", "T": T, "format": fname, "input": v, "expected": ["ok", v], "actual": back,
                                        "default_dialect": ddname})
    finally:
        subj.close()
    return out


def _run_discr(args):
    """one discriminated format family in one fresh universe, for one ORDER of first use of the variant under the format:
    'dispatch' (Base.from_<format> first) or 'holder' (a holder nesting the variant first, then the dispatch)"""
    fname, base, var, hold, v, doc_exp, order = args
    from harness.terms import Registry, abstract_value, concretize_type, concretize_value
    out = {"n": 0, "mism": []}
    to_m, from_m, Enc, Dec, parse = _fmt(fname)
    reg = Registry()
    rec = {"T": var, "format": fname, "input": v, "order": order, "family": "discriminated", "base": base, "hold": hold, "doc": doc_exp}
    try:
        B = concretize_type(base, reg)
        V = concretize_type(var, reg)
        x = concretize_value(v, reg)
        steps = ["dispatch", "holder"] if order == "dispatch" else ["holder", "dispatch"]
        for st in steps:
            out["n"] += 1
            try:
                if st == "dispatch":
                    data = getattr(x, to_m)()
                    parsed = abstract_value(parse(data), reg)
                    if not wire_match(eqform(canon(doc_exp)), eqform(parsed)):
                        out["mism"].append({**rec, "clause": "format-document", "expected": doc_exp, "actual": parsed})
                    y = getattr(B, from_m)(data)
                    back = abstract_value(y, reg)
                    if type(y) is not V or not terms_pyeq(back, v):
                        out["mism"].append({**rec, "clause": "format-roundtrip", "step": st, "expected": ["ok", v], "actual": ["ok", back]})
                else:
                    H = concretize_type(hold, reg)
                    hx = H(b=x, bs=[x])
                    hy = getattr(H, from_m)(getattr(hx, to_m)())
                    back = abstract_value(hy.b, reg)
                    if type(hy.b) is not V or not terms_pyeq(back, v) or hy != hx:
                        out["mism"].append({**rec, "clause": "format-roundtrip", "step": st, "expected": ["ok", v], "actual": ["ok", back]})
            except Exception as e:  # noqa: BLE001
                out["mism"].append({**rec, "clause": "format-roundtrip", "step": st, "expected": ["ok", v], "actual": ["exc", type(e).__name__, str(e)[:200]]})
    except Exception as e:  # noqa: BLE001
        out["mism"].append({**rec, "clause": "build", "actual": ["exc", type(e).__name__, str(e)[:200]]})
    finally:
        reg.close()
    return out


def discr_families(rep, printed, clause_map=None):
    """discriminated format families (MC_C04 dfvec records) in both orders of first use; clause_map renames clauses for other properties"""
    jobs = [(r[1], r[2], r[3], r[4], r[5], r[6], order) for r in printed if r[0] == "dfvec" for order in ("dispatch", "holder")]
    ctx = mp.get_context("fork")
    with ctx.Pool(16) as pool:
        for out in pool.imap_unordered(_run_discr, jobs, chunksize=2):
            rep.count(out["n"])
            rep.cov["traces_validated_against_impl"] += out["n"]
            for m in out["mism"]:
                c = (clause_map or {}).get(m["clause"], m["clause"])
                if c is not None:
                    rep.violation(c, {**m, "channel": "R", "replay_module": "harness.checks.c04"})
    for j in jobs:
        rep.nontrivial(hashlib.sha1(jkey(list(j)).encode()).hexdigest())
    return len(jobs)


def format_vectors(rep, tier, wanted=None):
    """MC_C04's vectors replayed through the format mixins / codecs; clauses outside `wanted` are another property's business"""
    wd = tlc.scratch()
    r = tlc.run_tlc("MC_C04", workdir=wd, workers=16, timeout=3000)
    rep.add_tlc(r, "MC_C04: NothingElseDiffers (format document == basic form modulo declared natives / TOML null omission); one vector per state")
    if r.violated:
        raise tlc.MachineryError(f"model property violated on the reference spec: {r.violated}")
    groups = {}
    for rec in r.printed:
        if rec[0] == "fvec":
            groups.setdefault(jkey([rec[1], rec[2]]), (rec[1], rec[2], []))[2].append(rec)
    ctx = mp.get_context("fork")
    with ctx.Pool(16) as pool:
        for out in pool.imap_unordered(_run_group, list(groups.values()), chunksize=4):
            rep.count(out["n"])
            rep.cov["traces_validated_against_impl"] += out["n"]
            for m in out["mism"]:
                if wanted is None or m["clause"] in wanted:
                    rep.violation(m["clause"], {**m, "channel": "R", "replay_module": "harness.checks.c04"})
    for rec in r.printed:
        if rec[0] == "fvec":
            rep.nontrivial(hashlib.sha1(jkey(rec[1:4]).encode()).hexdigest())
    for rec in r.printed[:: max(1, len(r.printed) // 3)][:3]:
        rep.sample({"channel": "R", "vector": rec})
    if wanted is None:
        discr_families(rep, r.printed)
    return r


def run(prop, tier, seed):
    rep = Report("C04", tier, seed)
    format_vectors(rep, tier)
    # histories of format / dict calls with dialects and keyword arguments on one class (sys/Mashumaro.tla)
    from harness.checks import sys_props
    sys_props.run_into(rep, "C04", tier, seed)
    rep.assumptions += ["the third-party encoders (json, orjson, PyYAML, msgpack, tomli_w/tomllib) are trusted to be lossless on their representable subset",
                        "map keys are restricted to types whose basic form is text (str, date, StrEnum): JSON key stringification is not modelled"]
    return rep.finish({"exhaustive": True,
                       "rule": "5 formats x (15 leaves + collection constructors over them) as a field of a dataclass with the format's mixin and of a plain dataclass through the "
                               "format's Encoder/Decoder x sample values inside the format's representable subset"})


def replay(rec, path):
    if rec.get("family") == "discriminated":
        out = _run_discr((rec["format"], rec["base"], rec["T"], rec["hold"], rec["input"], rec["doc"], rec["order"]))
    else:
        out = _run_group((rec["format"], rec["T"], [["fvec", rec["format"], rec["T"], rec["input"],
                                                      rec["expected"] if rec["clause"] == "format-document" else ["dict", []]]]))
    hit = [m for m in out["mism"] if m["clause"] == rec["clause"]]
    if hit:
        print("observed now:", json.dumps(hit[0]["actual"])[:500])
        print(f"VIOLATION property=C04 replay={path}")
        return 1
    print("no longer reproduces on the current tree")
    return 0
