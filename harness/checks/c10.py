"""C10: the most specific customization wins."""
from __future__ import annotations

from harness import core, tlc
from harness.report import Report


def run(prop, tier, seed):
    rep = Report("C10", tier, seed)
    wd = tlc.scratch()
    cfg = core.cfg_text("MC_C10.cfg", Quick=(tier == "quick"))
    r = core.run_mc_with_table("MC_C10", wd, [(["date"], [["str", "2024-02-29"]])], cfg=cfg, rep=rep, timeout=3000,
                               label="MC_C10: every subset of 11 registrations (+ winner variants): ExactlyOne; one vector per (class, direction)")
    if r.violated:
        raise tlc.MachineryError(f"model property violated on the reference spec: {r.violated}")
    core.assert_families(r.printed, {"C", "AH", "Box", "DateBox"}, "MC_C10", rep)
    agg = core.replay(r.printed)
    rep.count(agg["n"])
    rep.cov["traces_validated_against_impl"] += agg["n"]
    for k in agg["nontrivial"]:
        rep.nontrivial(k)
    wanted = {"wire", "encode-raises", "decode", "decode-accepts", "decode-rejects", "error-kind", "error-detail", "build"}
    for m in agg["mism"]:
        if m["clause"] in wanted:
            rep.violation(m["clause"], {**m, "channel": "R"})
    for rec in r.printed[:: max(1, len(r.printed) // 3)][:3]:
        rep.sample({"channel": "R", "vector": rec})
    from harness.checks import conf_props, sys_props
    conf_props.run_into(rep, "C10", tier, seed)
    sys_props.run_into(rep, "C10", tier, seed)
    # codec entry point: default_dialect x three keys (only the format-dialect level exists there)
    n = codec_part(rep)
    rep.count(n)
    rep.assumptions += ["markers: every registration returns a string naming itself, so the output identifies the winning level",
                        "mixin entry point: field option, field strategy, {call dialect, Config.dialect, Config.serialization_strategy} x {NewType, exact, origin}; "
                        "codec entry point: default_dialect x {NewType, exact, origin}"]
    return rep.finish({"exhaustive": False,
                       "rule": "all 2^11 subsets with every registration providing both directions; for each (quick: small/large subsets only) every single-registration "
                               "variant ser-only / deser-only / pass_through; both directions; distinct = distinct (class, call, direction)"})


def codec_part(rep):
    """default_dialect at the codec: expected winner computed by the same reference operator through TLC (MC_C10Codec)"""
    from harness import tlc as _t
    wd = _t.scratch()
    r = core.run_mc_with_table("MC_C10Codec", wd, [(["date"], [["str", "2024-02-29"]])], rep=rep,
                               label="MC_C10Codec: codec default_dialect x subsets of 3 keys x modes")
    from harness.real import BasicDecoder, BasicEncoder
    from harness.classes import build_dialect
    from harness.terms import Registry, abstract_value, concretize_type, concretize_value, terms_equal
    n = 0
    for rec in r.printed:
        _, T, dterm, v, wire, j, dec = rec
        reg = Registry()
        try:
            ann = concretize_type(T, reg)
            dl = build_dialect(dterm, reg) if dterm else None
            out = abstract_value(BasicEncoder(ann, default_dialect=dl).encode(concretize_value(v, reg)), reg)
            if not terms_equal(out, wire):
                rep.violation("wire", {"T": T, "input": v, "expected": wire, "actual": out, "dialect": dterm, "entry": "codec"})
            back = abstract_value(BasicDecoder(ann, default_dialect=dl).decode(concretize_value(j, reg)), reg)
            if dec[0] == "ok" and not terms_equal(back, dec[1]):
                rep.violation("decode", {"T": T, "input": j, "expected": dec, "actual": back, "dialect": dterm, "entry": "codec"})
            n += 2
        finally:
            reg.close()
    rep.cov["traces_validated_against_impl"] += n
    return n
