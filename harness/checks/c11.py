"""C11: Union / Optional / Literal resolution."""
from __future__ import annotations

from harness import core, tlc
from harness.report import Report


def run(prop, tier, seed):
    rep = Report("C11", tier, seed)
    wd = tlc.scratch()
    cfg = core.cfg_text("MC_C11.cfg", MaxMembers=3 if tier == "quick" else 4)
    r = core.run_mc("MC_C11", wd, cfg=cfg, rep=rep, timeout=3000,
                    label="MC_C11: NullOnlyNull ExactUnchanged WellTyped LiteralListed on the reference; one vector per (type, value|input)")
    if r.violated:
        raise tlc.MachineryError(f"model property violated on the reference spec: {r.violated}")
    agg = core.replay(r.printed)
    rep.count(agg["n"])
    rep.cov["traces_validated_against_impl"] += agg["n"]
    rep.unmodelled += agg["unknown"]
    for k in agg["nontrivial"]:
        rep.nontrivial(k)
    wanted = {"decode", "decode-accepts", "decode-rejects", "wire", "encode-raises", "build", "error-kind", "error-detail"}
    for m in agg["mism"]:
        if m["clause"] in wanted:
            rep.violation(m["clause"], {**m, "channel": "R"})
    for rec in r.printed[:: max(1, len(r.printed) // 3)][:3]:
        rep.sample({"channel": "R", "vector": rec})
    # union / Literal fields inside configured classes (strategies on members, call dialects, codec entry points)
    from harness.checks import conf_props
    conf_props.run_into(rep, "C11", tier, seed)
    rep.assumptions += ["reading of the statement fixed in DESIGN.md 6 C11 / App. A.3 (members in declaration order; scalar members match by exact type at their position; "
                        "scalar coercions last; a null member never accepts a non-null input), the reading under which the pinned tests/test_union.py cases are satisfiable"]
    return rep.finish({"exhaustive": False,
                       "rule": "every ordered union of 2..MaxMembers distinct members of {int,float,bool,str,None,date,List[int],Dict[str,int],dataclass} and 6 Literal types, bare and as "
                               "a dataclass field, x 30 foreign inputs and the members' own sample values"})
