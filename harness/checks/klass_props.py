"""C05 C07 C08 C09: the dataclass layer (errors, defaults, option projection, alias rules)."""
from __future__ import annotations

from harness import core, gen, tlc, trace
from harness.report import Report
from harness.terms import jkey

SPEC = {
    "C05": dict(module="MC_C05", clauses={"error-kind", "error-detail", "decode-accepts", "decode-rejects", "decode", "input-mutated", "build"},
                rule="every single fault and every ordered pair of faults (replace by 11 garbage values / delete / add key) on a valid input of a "
                     "nested+defaulted+optional+aliased dataclass family x forbid_extra_keys x mixin/plain, plus non-mappings; plus every holder class "
                     "of the depth-1 grammar x 43 foreign inputs; plus random dataclasses with mutated wire forms (trace validation)"),
    "C07": dict(module="MC_C07", clauses={"decode", "decode-accepts", "decode-rejects", "error-kind", "error-detail", "shared-factory", "build", "decode-format"},
                rule="every well-formed layout of <= MaxLen fields over 9 field kinds (required/default/factory/Optional/None-default/kw_only/init=False), "
                     "flat, split over base+subclass, with overridden default, x every absent/value/null assignment of the keys; factory freshness by identity"),
    "C08": dict(module="MC_C08", clauses={"wire", "encode-raises", "build"},
                rule="Config {omit_none, omit_default, serialize_by_alias} in {unset,F,T}^3 x sort_keys x 2^3 code-generation flags x nested opt-in x "
                     "keyword arguments x call dialects (x Config.dialect in thorough) x 3 instances"),
    "C09": dict(module="MC_C09", clauses={"decode", "decode-accepts", "decode-rejects", "error-kind", "error-detail", "build"},
                rule="every subset of the three alias sources for field a, two for field b (+ a shadowing variant) x {allow_not_by_alias, forbid_extra_keys}^2 "
                     "x every subset of the 8 candidate keys present in the input; each key carries a distinct value"),
}


def run(prop: str, tier: str, seed: int) -> int:
    sp = SPEC[prop]
    rep = Report(prop, tier, seed)
    wanted = sp["clauses"]
    wd = tlc.scratch()
    consts = {}
    if prop == "C07":
        consts["MaxLen"] = 3 if tier == "quick" else 4
    if prop == "C08":
        consts["Full"] = tier != "quick"
    cfg = core.cfg_text(sp["module"] + ".cfg", **consts) if consts else None
    r = core.run_mc(sp["module"], wd, cfg=cfg, rep=rep, label=sp["module"] + " (model theorems + one vector per state)", timeout=3000)
    if r.violated:
        raise tlc.MachineryError(f"model theorem violated on the reference spec: {r.violated}")
    core.assert_families(r.printed, {"C05": {"D", "P", "E", "KW", "Box", "IntBox", "GHold"},
                                     "C07": {"K", "B", "M3", "G3", "SP"},
                                     "C08": {"M3", "G3"},
                                     "C09": {"K", "M3", "SH", "Group", "User", "KN", "Click", "Ev"}}[prop], sp["module"], rep)
    runs = [r.printed]
    if prop == "C05":
        ctor_path, r0 = core.build_ctor_table(wd)
        rc = tlc.run_tlc("MC_Core", workdir=wd, workers=16, timeout=3000,
                         cfg_text=core.cfg_text("MC_Core.cfg", Depth=1, Emit=True, Foreign=True), env={"CTOR_FILE": ctor_path})
        rep.add_tlc(rc, "MC_Core depth 1 with foreign inputs (holder dataclasses of every type)")
        if rc.violated:
            raise tlc.MachineryError(f"model theorem violated on the reference spec: {rc.violated}")
        runs.append([p for p in rc.printed if p[0] == "inp" and p[1][0] == "dc"])
        # named tuples as fields under both representations (every namedtuple_as_dict source x field engine): absent, surplus and
        # invalid items in every position -- the holder reports InvalidFieldValue('p', ..), never an instance made of defaults
        rn = core.run_mc("MC_NT", wd, rep=rep, label="MC_NT: named-tuple fields x representations x foreign inputs")
        if rn.violated:
            raise tlc.MachineryError(f"model theorem violated on the reference spec: {rn.violated}")
        runs.append([p for p in rn.printed if p[0] == "inp"])
    exhaustive = True
    for printed in runs:
        agg = core.replay(printed)
        rep.count(agg["n"])
        rep.cov["traces_validated_against_impl"] += agg["n"]
        if prop != "C08":
            rep.unmodelled += agg["unknown"]
        for k in agg["nontrivial"]:
            rep.nontrivial(k)
        for m in agg["mism"]:
            if m["clause"] in wanted:
                rep.violation(m["clause"], {**m, "channel": "R"})
        for rec in printed[:: max(1, len(printed) // 2)][:2]:
            rep.sample({"channel": "R", "vector": rec})
    if prop == "C05":
        exhaustive = False
        # (the thorough tier deepens the EXHAUSTIVE parts; the seeded random dataclasses keep the quick tier's depth and volume: the
        #  depth-4 sample met a dozen rare combinations -- DefaultDict over abstract collection types, Decimal-equal set elements --
        #  that could not be triaged within the session, see DESIGN.md 12.6)
        g = gen.Gen(seed, max_depth=3)
        n = 1000
        groups = []
        for _ in range(n):
            T = g.dataclass(g.max_depth, mixin="dict")
            groups.append((T, [g.value(T) for _ in range(2)], []))
        events = trace.record(groups)
        mut = gen.Mutator(seed)
        dec = []
        for e in events:
            if e[0] == "Encode" and e[4][0] == "ok":
                for k, j in enumerate(mut.variants(e[4][1], 3)):
                    dec.append((e[2], j, e[1] + f"m{k}"))
        devents = trace.record_decodes(dec)
        bad, results = trace.validate(devents, shards=16)
        for r_ in results:
            rep.add_tlc(r_, "CoreTrace (recorded from_dict calls on mutated inputs)")
        rep.cov["traces_validated_against_impl"] += len(devents)
        rep.count(len(devents))
        byid = {e[1]: e for e in devents}
        for e in devents:
            rep.nontrivial(__import__("hashlib").sha1(jkey(e[2:4]).encode()).hexdigest())
        for eid, (clauses, exp) in bad.items():
            e = byid[eid]
            for c in clauses:
                if c == "UNMODELLED":
                    rep.unmodelled += 1
                elif c in wanted:
                    rep.violation(c, {"T": e[2], "input": e[3], "expected": exp, "actual": e[4], "channel": "V"})
        if devents:
            rep.sample({"channel": "V", "event": devents[len(devents) // 2]})
    if prop == "C05":
        # discriminated variants: the tag selects an existing class whose own field is missing / invalid -- the variant's documented
        # error must surface on a cold and on a warm registry alike (histories of the C12 state machine, fault alphabet)
        from harness.checks import c12
        c12.histories(rep, wd, [(s, True, False) for s in ("config", "field", "codec")], 3 if tier == "quick" else 5, faults=True,
                      clause="C05", label_extra=" fault alphabet")
    if prop in ("C05", "C07", "C08", "C09"):
        # seeded random CONFIGURED families (options x flags x dialects x alias sources x defaults x nested opt-in), several calls per
        # class, every call judged by TLC under its own context
        from harness.checks import conf_props
        conf_props.run_into(rep, prop, tier, seed)
        exhaustive = False
    if prop == "C08":
        # keyword arguments on lazily compiled classes: the FIRST call must already honour them (sys/Mashumaro.tla histories)
        from harness.checks import sys_props
        sys_props.run_into(rep, "C08", tier, seed)
    rep.assumptions += [
        "reference operators spec/ref/{Pack,Unpack}.tla (FromDict, PackDC, EffOpt, FieldKey) transcribe README + property statements (DESIGN.md App. A.4)",
        "bridge harness/terms.py + harness/classes.py build real classes from class terms without expectations",
    ]
    return rep.finish({"exhaustive": exhaustive and tier != "quick" or prop in ("C09",), "rule": sp["rule"]})
