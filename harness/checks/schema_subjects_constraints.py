"""Schema subjects that carry JSON Schema constraint annotations (mashumaro.jsonschema.annotations) on an OUTER type whose
components are again arrays / objects / numbers / strings.  A constraint belongs to the annotated type only: every value
below satisfies the constraints AT THE LEVEL WHERE THEY ARE WRITTEN and would violate them if they were (wrongly) applied
to a nested level.  Generated systematically: constraint x outer container x inner component."""
import dataclasses
from typing import Annotated, Dict, FrozenSet, List, Optional, Tuple, Union

from mashumaro.jsonschema.annotations import (ExclusiveMaximum, ExclusiveMinimum, MaxItems, Maximum, MaxLength, MaxProperties,
                                              Minimum, MinItems, MinLength, MinProperties, MultipleOf, UniqueItems)


def _subjects():
    out = []
    # ---- array constraints on the outer array, inner arrays of a different length / with duplicates
    inners = [("List[int]", List[int], [1, 1, 1]), ("Tuple[int,int,int]", Tuple[int, int, int], (1, 1, 1)),
              ("Tuple[int,...]", Tuple[int, ...], (1, 1, 1)), ("List[List[int]]", List[List[int]], [[1, 1, 1], [1, 1, 1], [1, 1, 1]]),
              ("Optional[List[int]]", Optional[List[int]], [1, 1, 1]), ("Dict[str,List[int]]", Dict[str, List[int]], {"a": [1, 1, 1], "b": [1, 1, 1], "c": [1, 1, 1]}),
              ("Union[List[int],str]", Union[List[int], str], [1, 1, 1])]
    for iname, ity, ival in inners:
        i2 = (2, 2, 2) if isinstance(ival, tuple) else ({"z": [2, 2, 2]} if isinstance(ival, dict) else ([[2, 2, 2]] * 3 if iname.startswith("List[List") else [2, 2, 2]))
        for cname, c, n in (("MaxItems(2)", MaxItems(2), 2), ("MaxItems(1)", MaxItems(1), 1)):
            vals = [ival, i2][:n]
            out.append((f"Annotated[List[{iname}], {cname}]", Annotated[List[ity], c], [vals, []]))
            out.append((f"Annotated[Tuple[{iname}, ...], {cname}]", Annotated[Tuple[ity, ...], c], [tuple(vals)]))
        out.append((f"Annotated[List[{iname}], UniqueItems]", Annotated[List[ity], UniqueItems(True)], [[ival, i2]]))
        out.append((f"Annotated[List[{iname}], MinItems(1), MaxItems(2)]", Annotated[List[ity], MinItems(1), MaxItems(2)], [[ival], [ival, i2]]))
    # inner arrays SHORTER than the outer minimum
    for iname, ity, ival in (("List[int]", List[int], [1]), ("Tuple[int]", Tuple[int], (1,)), ("List[List[int]]", List[List[int]], [[1]])):
        out.append((f"Annotated[List[{iname}], MinItems(2)]", Annotated[List[ity], MinItems(2)], [[ival, ival], [ival, ival, ival]]))
    # fixed tuples: a constraint on the tuple itself and tuples nested in a constrained list
    out.append(("Annotated[Tuple[List[int], int], MaxItems(2)]", Annotated[Tuple[List[int], int], MaxItems(2)], [([1, 2, 3], 4)]))
    out.append(("List[Annotated[List[int], MaxItems(1)]]", List[Annotated[List[int], MaxItems(1)]], [[[1], [2], [3]]]))
    out.append(("Annotated[List[Annotated[List[int], MinItems(3)]], MaxItems(1)]", Annotated[List[Annotated[List[int], MinItems(3)]], MaxItems(1)], [[[1, 2, 3]]]))
    out.append(("Annotated[FrozenSet[Tuple[int,int,int]], MaxItems(1)]", Annotated[FrozenSet[Tuple[int, int, int]], MaxItems(1)], [frozenset({(1, 2, 3)})]))
    # ---- object constraints on the outer mapping, inner mappings of a different size
    for iname, ity, ival in (("Dict[str,int]", Dict[str, int], {"x": 1, "y": 2, "z": 3}), ("List[Dict[str,int]]", List[Dict[str, int]], [{"x": 1, "y": 2, "z": 3}]),
                             ("Optional[Dict[str,int]]", Optional[Dict[str, int]], {"x": 1, "y": 2, "z": 3})):
        out.append((f"Annotated[Dict[str,{iname}], MaxProperties(1)]", Annotated[Dict[str, ity], MaxProperties(1)], [{"a": ival}, {}]))
        out.append((f"Annotated[Dict[str,{iname}], MaxProperties(2)]", Annotated[Dict[str, ity], MaxProperties(2)], [{"a": ival, "b": ival}]))
    out.append(("Annotated[Dict[str,Dict[str,int]], MinProperties(2)]", Annotated[Dict[str, Dict[str, int]], MinProperties(2)], [{"a": {"x": 1}, "b": {}}]))
    out.append(("Annotated[Dict[str,List[int]], MaxProperties(1), MinProperties(1)]", Annotated[Dict[str, List[int]], MaxProperties(1), MinProperties(1)], [{"a": [1, 2, 3]}]))
    # ---- each constraint at its own level, boundary values on both sides kept inside
    out.append(("List[Annotated[int, Minimum(0), Maximum(10)]]", List[Annotated[int, Minimum(0), Maximum(10)]], [[0, 10, 5], []]))
    out.append(("List[Annotated[int, ExclusiveMinimum(0), ExclusiveMaximum(10)]]", List[Annotated[int, ExclusiveMinimum(0), ExclusiveMaximum(10)]], [[1, 9]]))
    out.append(("Dict[str, Annotated[int, MultipleOf(5)]]", Dict[str, Annotated[int, MultipleOf(5)]], [{"a": 0, "b": 15, "c": -5}]))
    out.append(("Tuple[Annotated[float, Minimum(0)], Annotated[float, Maximum(0)]]", Tuple[Annotated[float, Minimum(0)], Annotated[float, Maximum(0)]], [(0.5, -0.5), (0.0, 0.0)]))
    out.append(("List[Annotated[str, MinLength(1), MaxLength(3)]]", List[Annotated[str, MinLength(1), MaxLength(3)]], [["a", "abc"]]))
    out.append(("Annotated[List[Annotated[str, MaxLength(1)]], MinItems(2)]", Annotated[List[Annotated[str, MaxLength(1)]], MinItems(2)], [["a", "b", "c"]]))
    out.append(("Annotated[List[Annotated[int, Maximum(1)]], MaxItems(3), UniqueItems]", Annotated[List[Annotated[int, Maximum(1)]], MaxItems(3), UniqueItems(True)], [[0, 1, -1]]))
    return out


@dataclasses.dataclass
class Grid:
    rows: Annotated[List[List[int]], MaxItems(2)]
    index: Annotated[Dict[str, Dict[str, int]], MaxProperties(1)] = dataclasses.field(default_factory=dict)
    triples: Annotated[List[Tuple[int, int, int]], MaxItems(2), MinItems(1)] = dataclasses.field(default_factory=lambda: [(1, 2, 3)])
    small: Annotated[int, Minimum(0), Maximum(3)] = 0
    names: List[Annotated[str, MaxLength(2)]] = dataclasses.field(default_factory=list)


@dataclasses.dataclass
class GridHolder:
    grids: Annotated[List[Grid], MaxItems(1)]
    by_name: Annotated[Dict[str, Grid], MinProperties(1)]


def _field_positions():
    """every kind of constraint annotation (incl. the unhashable DependentRequired) as a FIELD of a dataclass -- required, with a
    rendered None default, with a default_factory -- and inside containers of a field: the builder is total for them all"""
    from mashumaro.jsonschema.annotations import DependentRequired
    dep = Annotated[Dict[str, int], DependentRequired({"a": {"b"}})]
    kinds = [("MaxItems", Annotated[List[int], MaxItems(3)], [1, 2]), ("Minimum", Annotated[int, Minimum(0)], 1),
             ("MaxLength", Annotated[str, MaxLength(4)], "ab"), ("MaxProperties", Annotated[Dict[str, int], MaxProperties(3)], {"a": 1}),
             ("DependentRequired", dep, {"a": 1, "b": 2}), ("UniqueItems", Annotated[List[int], UniqueItems(True)], [1, 2])]
    out = []
    for kname, ann, val in kinds:
        mutable = isinstance(val, (list, dict))
        try:
            optann = Optional[ann]
        except TypeError:              # typing cannot build a Union around unhashable metadata: that spelling does not exist
            optann = ann
        ns = {"__annotations__": {"req": ann, "inlist": List[ann], "indict": Dict[str, ann], "opt": optann, "nonedflt": ann,
                                  "fac" if mutable else "dflt": ann, "intuple": Tuple[ann, int]},
              "opt": None, "nonedflt": None, "intuple": dataclasses.field(default_factory=lambda v=val: (v, 1))}
        ns["fac" if mutable else "dflt"] = dataclasses.field(default_factory=lambda v=val: type(v)(v)) if mutable else val
        cls = dataclasses.dataclass(type("CF_" + kname, (), ns))
        import copy
        inst = cls(req=copy.deepcopy(val), inlist=[copy.deepcopy(val)], indict={"k": copy.deepcopy(val)}, opt=copy.deepcopy(val), nonedflt=copy.deepcopy(val))
        out.append((f"dataclass fields carrying {kname}", cls, [inst]))
        out.append((f"List of dataclass with {kname} fields", List[cls], [[inst]]))
    return out


_G = Grid(rows=[[1, 2, 3], [4, 5, 6]], index={"k": {"a": 1, "b": 2}}, triples=[(1, 2, 3), (4, 5, 6)], small=3, names=["ab", "c", "d"])
SUBJECTS = _subjects() + _field_positions() + [("Grid", Grid, [_G, Grid(rows=[])]), ("GridHolder", GridHolder, [GridHolder([_G], {"g": _G})])]
