"""C06 / C20: JSON Schema generation.  Real schemas and real serializer output are recorded as
JSON-as-term events; TLC judges them with the TLA+ validator (spec/ref/JsonSchema.tla, trace spec
spec/trace/SchemaTrace.tla).  The jsonschema wheel is used as a cross-check only: a verdict is
reported only when both validators agree."""
from __future__ import annotations

import hashlib
import json
import multiprocessing as mp
import os
import sys

from harness import core, gen, tlc, trace
from harness.report import Report
from harness.terms import abstract_float, jkey

DEPS = os.path.join(os.path.dirname(os.path.dirname(os.path.dirname(os.path.abspath(__file__)))), ".deps")
if os.path.isdir(DEPS) and DEPS not in sys.path:
    sys.path.append(DEPS)


class Unmodelled(Exception):
    pass


def jterm(x):
    if isinstance(x, __import__("enum").Enum):
        x = x.value                      # what a JSON encoder writes for an Enum member (IntEnum / str-mixin members are ints / strs)
    if x is None:
        return ["z"]
    if isinstance(x, bool):
        return ["b", 1 if x else 0]
    if isinstance(x, int):
        if abs(x) >= 2 ** 31:
            raise Unmodelled("big int")
        return ["n", int(x)]
    if isinstance(x, float):
        f = abstract_float(x)
        if f[0] != "float":
            raise Unmodelled("float outside the term language")
        return ["f", f[1], f[2]]
    if isinstance(x, str):
        return ["s", str.__str__(x) if type(x) is not str else x]
    if isinstance(x, (list, tuple)):
        return ["a", [jterm(e) for e in x]]
    if isinstance(x, dict):
        out = []
        for k, v in x.items():
            if not isinstance(k, str):
                raise Unmodelled("non-string key")
            out.append([k, jterm(v)])
        return ["o", out]
    raise Unmodelled(type(x).__name__)


def walk_refs(doc, acc):
    if isinstance(doc, dict):
        r = doc.get("$ref")
        if isinstance(r, str):
            acc.add(r)
        for v in doc.values():
            walk_refs(v, acc)
    elif isinstance(doc, list):
        for v in doc:
            walk_refs(v, acc)
    return acc


def ref_path(r):
    if not r.startswith("#/"):
        return None
    return [seg.replace("~1", "/").replace("~0", "~") for seg in r[2:].split("/")]


def build_root(ann, dialect_name, all_refs):
    """real schema document with the collected definitions placed where the configured prefix points"""
    from mashumaro.jsonschema import JSONSchemaBuilder
    from mashumaro.jsonschema.dialects import DRAFT_2020_12, OPEN_API_3_1
    d = DRAFT_2020_12 if dialect_name == "draft" else OPEN_API_3_1
    b = JSONSchemaBuilder(dialect=d, all_refs=all_refs)
    schema = b.build(ann)
    sd = schema.to_dict()
    defs = b.get_definitions().to_dict()
    prefix = d.definitions_root_pointer
    root = dict(sd)
    if defs:
        if dialect_name == "draft":
            root["$defs"] = defs
        else:
            root["components"] = {"schemas": defs}
    return root, sd, defs, prefix, schema


def facts_of(root, prefix):
    refs = sorted(walk_refs(root, set()))
    paths, facts = [], []
    for r in refs:
        p = ref_path(r)
        if p is None:
            paths.append([r, ["#unresolvable"]])
            facts.append([r, False, ""])
            continue
        paths.append([r, p])
        facts.append([r, r.startswith(prefix.rstrip("/") + "/"), p[-1]])
    return paths, facts


def lib_valid(root, inst):
    import jsonschema
    try:
        return "valid" if jsonschema.Draft202012Validator(root).is_valid(inst) else "invalid"
    except Exception:  # noqa: BLE001
        return "invalid"


def lib_wellformed(root):
    import jsonschema
    try:
        jsonschema.Draft202012Validator.check_schema(root)
        return True
    except Exception:  # noqa: BLE001
        return False


COMBOS = [("draft", False), ("draft", True), ("openapi", False), ("openapi", True)]


def _record_group(args):
    """one type term, several value terms -> Schema / Validate / Required / RoundTrip events (+ build failures)"""
    gid, T, values, want = args
    from harness.real import Subject
    from harness.terms import concretize_value
    from mashumaro.jsonschema.models import JSONSchema
    events = []
    try:
        subj = Subject(T)
    except Exception as e:  # noqa: BLE001
        return [["ClassBuildFailed", f"{gid}", T, type(e).__name__]]
    try:
        insts = []
        for v in values:
            try:
                w = subj.encode_py(concretize_value(v, subj.reg))
                insts.append((v, json.loads(json.dumps(w))))
            except Exception:  # noqa: BLE001
                continue            # not JSON-able / serializer failure: other properties' business
        for ci, (dn, ar) in enumerate(COMBOS):
            eid = f"{gid}.{ci}"
            try:
                root, sd, defs, prefix, schema = build_root(subj.ann, dn, ar)
            except RecursionError:
                events.append(["BuildFailed", eid, T, [dn, ar], ["RecursionError", ""]])
                continue
            except Exception as e:  # noqa: BLE001
                events.append(["BuildFailed", eid, T, [dn, ar], [type(e).__name__, str(e)[:160]]])
                continue
            try:
                jr = jterm(root)
            except Unmodelled:
                events.append(["Unmodelled", eid, T])
                continue
            paths, facts = facts_of(root, prefix)
            if "C20" in want:
                events.append(["Schema", eid + "s", jr, paths, facts, sorted(defs), lib_wellformed(root), T, [dn, ar]])
                if ci == 0:
                    try:
                        again = JSONSchema.from_dict(sd).to_dict()
                        events.append(["RoundTrip", eid + "t", jterm(sd), jterm(again), T])
                    except Unmodelled:
                        pass
                    except Exception as e:  # noqa: BLE001
                        events.append(["BuildFailed", eid + "t", T, ["from_dict"], [type(e).__name__, str(e)[:160]]])
            if "C06" in want:
                events.append(["Schema", eid + "s", jr, paths, facts, sorted(defs), lib_wellformed(root), T, [dn, ar]])
                for k, (v, inst) in enumerate(insts):
                    try:
                        ji = jterm(inst)
                    except Unmodelled:
                        events.append(["Unmodelled", f"{eid}.{k}", T])
                        continue
                    events.append(["Validate", f"{eid}.{k}", jr, paths, ji, lib_valid(root, inst), T, v, [dn, ar]])
                if T[0] == "dc" and ci == 0:
                    events.append(["Required", eid + "r", T, jterm(sd)])
    finally:
        subj.close()
    return events


def record(groups, want, procs=16):
    work = [(i, T, vs, want) for i, (T, vs) in enumerate(groups)]
    ctx = mp.get_context("fork")
    out = []
    with ctx.Pool(procs) as pool:
        for evs in pool.imap(_record_group, work, chunksize=8):
            out.extend(evs)
    return out


def validate(events, wd, shards=16):
    """-> {event id: [clauses]}, tlc results"""
    evs = [e for e in events if e[0] in ("Validate", "Schema", "Required", "Distinct", "Defs", "RoundTrip")]
    # builder-context events must stay in order inside one shard
    ordered = [e for e in evs if e[0] == "Defs"]
    rest = [e for e in evs if e[0] != "Defs"]
    shards = max(1, min(shards, len(rest) // 300 or 1))
    parts = [rest[i::shards] for i in range(shards)]
    parts[0] = ordered + parts[0]
    jobs = []
    for k, part in enumerate(parts):
        path = os.path.join(wd, f"trace_schema_{k}.ndjson")
        with open(path, "w") as fh:
            for e in part:
                fh.write(json.dumps(e[:7]) + "\n")        # the TLA+ side reads the first 7 components at most
        jobs.append(("SchemaTrace", wd, path, os.path.join(wd, "nofile"), {}, 2400))
    ctx = mp.get_context("fork")
    with ctx.Pool(len(jobs)) as pool:
        results = pool.map(trace._validate_one, jobs)
    bad = {}
    for r in results:
        for p in r.printed:
            if p and p[0] == "BAD":
                bad[p[1]] = p[2]
    return bad, results, len(evs)


def type_pool(wd, rep, tier):
    """(type, sample values) from the exhaustive grammar (TLC) + seeded random deeper schemas"""
    ctor_path, r0 = core.build_ctor_table(wd)
    r = tlc.run_tlc("MC_Core", workdir=wd, workers=16, timeout=3000,
                    cfg_text=core.cfg_text("MC_Core.cfg", Depth=1, Emit=True, Foreign=False), env={"CTOR_FILE": ctor_path})
    rep.add_tlc(r, "MC_Core depth 1 (type x sample value enumeration used as schema subjects)")
    by = {}
    for rec in r.printed:
        if rec[0] == "vec":
            by.setdefault(jkey(rec[1]), (rec[1], []))[1].append(rec[2])
    groups = list(by.values())
    if tier == "quick":
        groups = groups[::4]
    # named tuples under every namedtuple_as_dict / engine combination
    rn = core.run_mc("MC_NT", wd, rep=rep, label="MC_NT (named-tuple option combinations as schema subjects)")
    byn = {}
    for rec in rn.printed:
        if rec[0] == "vec":
            byn.setdefault(jkey(rec[1]), (rec[1], []))[1].append(rec[2])
    return groups + list(byn.values())


def run(prop, tier, seed):
    rep = Report(prop, tier, seed)
    wd = tlc.scratch()
    groups = type_pool(wd, rep, tier)
    g = gen.Gen(seed, max_depth=3 if tier == "quick" else 4, str_keys_only=True)
    for i in range(150 if tier == "quick" else 3000):
        T = g.dataclass(g.max_depth) if i % 2 else g.type()
        groups.append((T, [g.value(T) for _ in range(2)]))
    # configured dataclass families without strategies (alias sources incl. two sources on one field, serialize_by_alias,
    # omit_none / omit_default, nested classes with their own options): the schema must describe the documents AS CONFIGURED
    from harness import cgen
    cg = cgen.ConfGen(seed + 4242, plain_wire=True)
    for i in range(120 if tier == "quick" else 2500):
        T = cg.family()
        groups.append((T, [cg.value(T) for _ in range(2)]))
    events = record(groups, {prop})
    events += extra_events(prop, seed, tier)
    if prop == "C20":
        # the builder context as a state machine: every sequence of builds x dialect x all_refs x ref_prefix (spec/sys/SchemaCtx.tla)
        from harness.checks import schema_ctx
        schema_ctx.run_into(rep, tier, wd)
    while _LAST_TLC:
        rep.add_tlc(*_LAST_TLC.pop())
    bad, results, njudged = validate(events, wd)
    for r_ in results:
        rep.add_tlc(r_, "SchemaTrace (TLA+ Draft 2020-12 validator + builder-context state machine over recorded events)")
    rep.count(njudged)
    rep.cov["traces_validated_against_impl"] += njudged
    byid = {e[1]: e for e in events}
    undecided = 0
    for e in events:
        if e[0] == "BuildFailed" and prop == "C20":
            if e[4][0] == "NotImplementedError" and "isn't supported" in e[4][1]:
                rep.unmodelled += 1          # the builder DECLARES the type unsupported: outside the schema-supported grammar
                continue
            rep.violation("build-raises", {"T": e[2], "combo": e[3], "actual": e[4], "replay_module": "harness.checks.schema_props", "prop": prop})
        elif e[0] == "Unmodelled":
            rep.unmodelled += 1
        elif e[0] in ("Validate", "Schema", "Required", "RoundTrip"):
            rep.nontrivial(hashlib.sha1(jkey([e[0], e[6:9] if e[0] == "Validate" else e[2]])[:100000].encode()).hexdigest())
    wanted = {"C06": {"schema-rejects-output", "unsatisfiable", "required-mismatch", "shared-definition"},
              "C20": {"not-well-formed", "dangling-ref", "ref-outside-context", "ref-not-recorded", "defs-not-monotone", "model-roundtrip"}}[prop]
    for eid, clauses in bad.items():
        e = byid[eid]
        for c in clauses:
            if c == "UNMODELLED":
                rep.unmodelled += 1
            elif c == "UNDECIDED":
                undecided += 1
            elif c in wanted:
                rec = {"event": e[0], "T": e[6] if e[0] == "Validate" else e[7] if e[0] == "Schema" else (e[2] if e[0] == "Required" else (e[4] if e[0] == "RoundTrip" else None)),
                       "replay_module": "harness.checks.schema_props", "prop": prop}
                if e[0] == "Validate":
                    rec.update({"input": e[7], "combo": e[8]})
                elif e[0] == "Schema":
                    rec.update({"combo": e[8]})
                elif e[0] == "Distinct":
                    rec.update({"refs": e[2:4], "what": e[5] if len(e) > 5 else ""})
                elif e[0] == "Defs":
                    rec.update({"builder": e[2]})
                rep.violation(c, rec)
    rep.selftests["validators_disagree_on_events"] = undecided
    rep.notes.append(f"events on which the TLA+ validator and the jsonschema library disagree (machinery self-test, never a verdict): {undecided}")
    val = [e for e in events if e[0] == "Validate"]
    if val:
        e = val[len(val) // 2]
        rep.sample({"event": "Validate", "T": e[6], "value": e[7], "combo": e[8], "library_verdict": e[5]})
    sch = [e for e in events if e[0] == "Schema"]
    if sch:
        rep.sample({"event": "Schema", "T": sch[0][7], "combo": sch[0][8], "definitions": sch[0][5]})
    rep.assumptions += ["the TLA+ validator covers the keyword subset mashumaro emits; a schema using anything else is counted unmodelled",
                        "a verdict is reported only when the TLA+ validator and jsonschema.Draft202012Validator agree",
                        "definitions are placed where the configured prefix points ($defs / components/schemas) before resolution",
                        "instances are json.loads(json.dumps(serializer output)) of the class as configured (by alias where the generator set serialize_by_alias)"]
    return rep.finish({"exhaustive": False,
                       "rule": "every type of the depth-1 grammar (quick: every 4th) with its sample values + seeded random deeper schemas, x {Draft 2020-12, OpenAPI 3.1} x {inline, all_refs}; "
                               "plus builder-context sequences, same-named classes and generic specialisations"})


# ---------------------------------------------------------------- hand-written subjects (generics, same names, build sequences, configs)
def extra_events(prop, seed, tier):
    import dataclasses
    import typing
    from mashumaro.jsonschema import JSONSchemaBuilder
    from mashumaro.jsonschema.dialects import DRAFT_2020_12, OPEN_API_3_1
    ev = []

    def refs_of_props(ann, dialect):
        b = JSONSchemaBuilder(dialect=dialect, all_refs=True)
        b.build(ann)
        defs = b.get_definitions().to_dict()
        top = [d for n, d in defs.items() if n.startswith("Pair")]
        props = top[0]["properties"] if top else {}
        return props.get("a", {}).get("$ref"), props.get("b", {}).get("$ref")

    if prop == "C06":
        from harness.checks import schema_subjects as subj_mod
        for k, (ann, what) in enumerate(subj_mod.DISTINCT):
            for dn, d in (("draft", DRAFT_2020_12), ("openapi", OPEN_API_3_1)):
                try:
                    ra, rb = refs_of_props(ann, d)
                    ev.append(["Distinct", f"x{k}{dn}", ra or "#a", rb or "#b", False, what])
                except Exception as e:  # noqa: BLE001
                    ev.append(["BuildFailed", f"x{k}{dn}", ["hand-written", what], [dn, True], [type(e).__name__, str(e)[:160]]])
        # hand-written values of types outside the term grammar (Flag enums, unpacked fixed tuples)
        from mashumaro.codecs.basic import BasicEncoder
        for name, ann, values in [("WithFlags", subj_mod.WithFlags, subj_mod.FLAG_VALUES), ("WithUnpackedFixed", subj_mod.WithUnpackedFixed, subj_mod.UNPACKED_VALUES)] \
                + list(subj_mod.SIBLING_SUBJECTS):
            for ci, (dn, ar) in enumerate(COMBOS):
                try:
                    root, sd, defs, prefix, schema = build_root(ann, dn, ar)
                    jr = jterm(root)
                    paths, facts = facts_of(root, prefix)
                    ev.append(["Schema", f"h{name}{ci}s", jr, paths, facts, sorted(defs), lib_wellformed(root), ["hand-written", name], [dn, ar]])
                    for k, val in enumerate(values):
                        inst = json.loads(json.dumps(BasicEncoder(ann).encode(val)))
                        ev.append(["Validate", f"h{name}{ci}.{k}", jr, paths, jterm(inst), lib_valid(root, inst), ["hand-written", name], repr(val), [dn, ar]])
                except Exception as e:  # noqa: BLE001
                    ev.append(["BuildFailed", f"h{name}{ci}", ["hand-written", name], [dn, ar], [type(e).__name__, str(e)[:160]]])
    # subjects declared with string annotations / forward references (NamedTuple fields, TypeVar bounds): both properties
    from mashumaro.codecs.basic import BasicEncoder as _BE
    from harness.checks import schema_subjects_future as fut
    from harness.checks import schema_subjects_constraints as con
    for name, ann, values in fut.SUBJECTS + con.SUBJECTS:
        for ci, (dn, ar) in enumerate(COMBOS):
            try:
                root, sd, defs, prefix, schema = build_root(ann, dn, ar)
                jr = jterm(root)
                paths, facts = facts_of(root, prefix)
                ev.append(["Schema", f"f{name}{ci}s", jr, paths, facts, sorted(defs), lib_wellformed(root), ["hand-written", "subject " + name], [dn, ar]])
                if prop == "C06":
                    for k, val in enumerate(values):
                        inst = json.loads(json.dumps(_BE(ann).encode(val)))
                        ev.append(["Validate", f"f{name}{ci}.{k}", jr, paths, jterm(inst), lib_valid(root, inst), ["hand-written", "subject " + name], repr(val), [dn, ar]])
            except RecursionError:
                ev.append(["BuildFailed", f"f{name}{ci}", ["hand-written", "subject " + name], [dn, ar], ["RecursionError", ""]])
            except Exception as e:  # noqa: BLE001
                ev.append(["BuildFailed", f"f{name}{ci}", ["hand-written", "subject " + name], [dn, ar], [type(e).__name__, str(e)[:160]]])
    if prop == "C20":
        ev += default_families(tier)
        from harness.real import Subject
        g = gen.Gen(seed + 17, max_depth=2)
        for bi in range(20 if tier == "quick" else 200):
            b = JSONSchemaBuilder(dialect=DRAFT_2020_12 if bi % 2 else OPEN_API_3_1, all_refs=bool(bi % 3))
            shared = g.dataclass(2, mixin="plain")
            seq = [g.dataclass(2), ["list", shared], shared, ["dict", ["str"], shared], g.dataclass(2)]
            subjects = []
            try:
                for si, T in enumerate(seq):
                    try:
                        s = Subject(T, reg=subjects[0].reg if subjects else None)
                        subjects.append(s)
                        b.build(s.ann)
                        defs = b.get_definitions().to_dict()
                        ev.append(["Defs", f"b{bi}.{si}", f"b{bi}", [[n, jterm(d)] for n, d in defs.items()]])
                    except Unmodelled:
                        pass
                    except Exception as e:  # noqa: BLE001
                        ev.append(["BuildFailed", f"b{bi}.{si}", T, ["builder-sequence"], [type(e).__name__, str(e)[:160]]])
            finally:
                if subjects:
                    subjects[0].close()
        ev += config_totality(seed, tier)
    return ev


_LAST_TLC = []


def _record_shard(args):
    """consecutive classes are built in ONE process, one after the other (the builder's module-level state is shared)"""
    out = []
    for gid, T in args:
        out += _record_group((gid, T, [], {"C20"}))
    return out


def default_families(tier):
    """C20 'total' over MC_C20's defaulted-class families (TLC-enumerated)"""
    wd = tlc.scratch()
    r = tlc.run_tlc("MC_C20", workdir=wd, workers=16, timeout=1800)
    _LAST_TLC.append((r, "MC_C20: DefaultsConform; one class per (type, declaration order, config) with value / None defaults"))
    classes = sorted((p[1] for p in r.printed if p[0] == "cls"), key=jkey)
    if tier == "quick":
        classes = classes[::2] + classes[1::16]
    work = [(f"d{i}", T) for i, T in enumerate(classes)]
    shards = [work[k::16] for k in range(16)]
    ctx = mp.get_context("fork")
    ev = []
    with ctx.Pool(16) as pool:
        for evs in pool.imap(_record_shard, shards):
            ev += evs
    return ev


def config_totality(seed, tier):
    """C20 'total': serialization options, defaults of every type, dialects and self-references never make the builder crash"""
    from harness.real import Subject
    from mashumaro.jsonschema import build_json_schema
    ev = []
    g = gen.Gen(seed + 99, max_depth=2)
    cfgs = [[], [["omit_none", True]], [["omit_default", True]], [["serialize_by_alias", True]], [["omit_none", True], ["omit_default", True]],
            [["sort_keys", True]], [["forbid_extra_keys", True]], [["dialect", [["name", "SD"], ["omit_none", True]]]], [["lazy", True]]]
    n = 0
    for i in range(60 if tier == "quick" else 1500):
        T = g.dataclass(2, mixin="dict")
        # give every field a default so that "defaults of every type" are exercised
        fields = []
        for f in T[2]:
            v = g.value(f[1])
            dflt = ["fac", v] if v[0] in ("list", "dict", "set", "deque", "OrderedDict", "defaultdict", "Counter", "ChainMap", "bytearray", "obj") else ["val", v]
            fields.append([f[0], f[1], dflt, f[3]])
        for cfg in cfgs[: 9 if tier != "quick" else 5]:
            TT = ["dc", T[1], fields, [o for o in T[3] if o[0] not in {c[0] for c in cfg}] + cfg]
            n += 1
            try:
                s = Subject(TT)
            except Exception:  # noqa: BLE001
                continue
            try:
                build_json_schema(s.ann).to_dict()
            except RecursionError:
                ev.append(["BuildFailed", f"c{i}.{n}", TT, ["config"], ["RecursionError", ""]])
            except Exception as e:  # noqa: BLE001
                ev.append(["BuildFailed", f"c{i}.{n}", TT, ["config"], [type(e).__name__, str(e)[:160]]])
            finally:
                s.close()
    # self-reference
    from harness.checks.schema_subjects import Node
    try:
        build_json_schema(Node).to_dict()
    except RecursionError:
        ev.append(["BuildFailed", "selfref", ["hand-written", "self-referencing dataclass Node(next: Optional[Node], kids: List[Node])"], ["config"], ["RecursionError", ""]])
    except Exception as e:  # noqa: BLE001
        ev.append(["BuildFailed", "selfref", ["hand-written", "self-referencing dataclass"], ["config"], [type(e).__name__, str(e)[:160]]])
    return ev


def replay(rec, path):
    """re-record the single subject and re-judge it"""
    prop = rec.get("prop", rec.get("property"))
    T = rec.get("T")
    wd = tlc.scratch()
    if rec["clause"] == "build-raises" or not isinstance(T, list) or T[0] == "hand-written":
        evs = extra_events(prop, 1, "quick") if (not isinstance(T, list) or T[0] == "hand-written") else _record_group((0, T, [], {prop}))
        hit = [e for e in evs if e[0] == "BuildFailed" and (e[2] == T)
               and not (e[4][0] == "NotImplementedError" and "isn't supported" in e[4][1])]   # same exemption as run()
        if rec["clause"] != "build-raises":
            bad, _, _ = validate(evs, wd)
            hit = [k for k, v in bad.items() if rec["clause"] in v]
        if hit:
            print("observed now:", json.dumps(hit[0])[:400])
            print(f"VIOLATION property={prop} replay={path}")
            return 1
        print("no longer reproduces on the current tree")
        return 0
    evs = _record_group((0, T, [rec["input"]] if "input" in rec else [], {prop}))
    bad, _, _ = validate(evs, wd)
    if any(rec["clause"] in v for v in bad.values()):
        print(f"VIOLATION property={prop} replay={path}")
        return 1
    print("no longer reproduces on the current tree")
    return 0
