"""C13, second half: a default_dialect handed to any codec is honoured in every one of its options on top of
the format's own requirements -- the same dialect means the same logical document in every format."""
import harness.real  # noqa: F401  (puts the repository working tree on sys.path)
import dataclasses
import json
import uuid
from typing import NamedTuple, Optional


from mashumaro.helper import field_options  # noqa: E402


class NT(NamedTuple):
    a: int
    b: str


@dataclasses.dataclass
class In:
    p: Optional[int] = None
    q: int = dataclasses.field(default=1, metadata=field_options(alias="qq"))


@dataclasses.dataclass
class Doc:
    x: Optional[int] = None
    y: int = dataclasses.field(default=5, metadata=field_options(alias="yy"))
    nt: NT = NT(1, "n")
    items: list = dataclasses.field(default_factory=lambda: [1, 2])
    inner: In = dataclasses.field(default_factory=In)
    s: str = "s"
    u: uuid.UUID = uuid.UUID(int=7)


def run(rep, tier):
    import msgpack
    import orjson
    import tomllib
    import yaml
    from mashumaro.codecs.basic import BasicEncoder
    from mashumaro.codecs.json import JSONEncoder
    from mashumaro.codecs.msgpack import MessagePackEncoder
    from mashumaro.codecs.orjson import ORJSONEncoder
    from mashumaro.codecs.toml import TOMLEncoder
    from mashumaro.codecs.yaml import YAMLEncoder
    from mashumaro.dialect import Dialect

    options = {
        "omit_none": {"omit_none": True},
        "omit_default": {"omit_default": True},
        "serialize_by_alias": {"serialize_by_alias": True},
        "namedtuple_as_dict": {"namedtuple_as_dict": True},
        "no_copy_collections": {"no_copy_collections": (list, dict)},
        "serialization_strategy": {"serialization_strategy": {str: {"serialize": lambda v: v.upper()}}},
        # a ONE-DIRECTION entry for a type some format dialects customise themselves (orjson keeps UUID native): layering the
        # user's dialect over a format dialect must not write anything back into the user's dialect
        "deserialize_only_strategy": {"serialization_strategy": {uuid.UUID: {"deserialize": uuid.UUID}}},
    }
    parsers = {
        "json": (JSONEncoder, json.loads),
        "orjson": (ORJSONEncoder, orjson.loads),
        "yaml": (YAMLEncoder, yaml.safe_load),
        "msgpack": (MessagePackEncoder, lambda b: msgpack.unpackb(b, raw=False)),
        "toml": (TOMLEncoder, tomllib.loads),
    }
    value = Doc(x=None, y=6, inner=In(p=None, q=2))
    n = 0
    # a dialect's options are whatever the class exposes: declared on the class itself, inherited from a parent dialect
    # class, or a mix of both (the child adds a second option)
    variants = []
    for oname, ns in options.items():
        variants.append((oname, "own", type("D_" + oname, (Dialect,), dict(ns))))
        parent = type("P_" + oname, (Dialect,), dict(ns))
        parent.__module__ = __name__
        globals()[parent.__name__] = parent
        variants.append((oname, "inherited", type("DI_" + oname, (parent,), {})))
        other = "omit_default" if oname != "omit_default" else "omit_none"
        variants.append((oname + "+" + other, "inherited+own", type("DM_" + oname, (parent,), dict(options[other]))))
        variants.append((oname + "+" + other, "own+own", type("DO_" + oname, (Dialect,), {**ns, **options[other]})))
    reference = {}
    for oname, how, D in variants:
        D.__module__ = __name__
        globals()[D.__name__] = D          # importable by name, like a dialect defined at module level
        basic = BasicEncoder(Doc, default_dialect=D).encode(value)
        # the same options must mean the same document however the dialect class came by them
        if oname in reference and reference[oname] != basic:
            rep.violation("codec-dialect-option", {"format": "basic", "option": oname + " (" + how + ")", "expected": _j(reference[oname]), "actual": _j(basic),
                                                   "replay_module": "harness.checks.c13_formats"})
        reference.setdefault(oname, basic)
        oname = oname + " (" + how + ")"
        for fname, (Enc, parse) in parsers.items():
            exp = _drop_none(basic) if fname == "toml" else basic      # TOML has no null: its dialect omits None
            n += 1
            try:
                doc = parse(Enc(Doc, default_dialect=D).encode(value))
            except Exception as e:  # noqa: BLE001
                doc = ["exc", type(e).__name__, str(e)[:160]]
            if doc != exp:
                rep.violation("codec-dialect-option", {"format": fname, "option": oname, "expected": _j(exp), "actual": _j(doc),
                                                       "replay_module": "harness.checks.c13_formats"})
        # dialects are isolated: having been a codec's default_dialect in every format, the SAME dialect class still means the
        # same basic document for a codec created afterwards
        n += 1
        try:
            again = BasicEncoder(Doc, default_dialect=D).encode(value)
        except Exception as e:  # noqa: BLE001
            again = ["exc", type(e).__name__, str(e)[:160]]
        if again != basic:
            rep.violation("codec-dialect-option", {"format": "basic (after the format codecs)", "option": oname, "expected": _j(basic), "actual": _j(again),
                                                   "replay_module": "harness.checks.c13_formats"})
    rep.count(n)
    rep.cov["traces_validated_against_impl"] += n
    rep.sample({"part": "codec default_dialect", "formats": sorted(parsers), "options": sorted(options)})


def _drop_none(d):
    if isinstance(d, dict):
        return {k: _drop_none(v) for k, v in d.items() if v is not None}
    if isinstance(d, list):
        return [_drop_none(v) for v in d]
    return d


def _j(x):
    return json.loads(json.dumps(x, default=repr))


def replay(rec, path):
    from harness.report import Report
    rep = Report("C13", "quick", 0)
    rep.known = []
    run(rep, "quick")
    hit = [v for v in rep.violations if v["format"] == rec["format"] and v["option"] == rec["option"]]
    if hit:
        print("observed now:", hit[0]["actual"])
        print(f"VIOLATION property=C13 replay={path}")
        return 1
    print("no longer reproduces on the current tree")
    return 0
