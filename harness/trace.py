"""Channel V: record executions of the real library as ndjson events and let TLC judge them."""
from __future__ import annotations

import json
import multiprocessing as mp
import os

from harness import tlc
from harness.ctor import CtorTable
from harness.terms import jkey


def _record_group(args):
    """runs in a subprocess: one type, several values -> events"""
    gid, T, values, inputs = args
    from harness.real import Subject
    from harness.terms import abstract_value, concretize_value
    events = []
    try:
        subj = Subject(T)
    except Exception as e:  # noqa: BLE001
        return [["BuildFailed", f"{gid}", T, ["exc", type(e).__name__, str(e)[:200]]]]
    has_any = '"any"' in json.dumps(T)
    try:
        for i, v in enumerate(values):
            eid = f"{gid}.{i}"
            res = subj.encode(v)
            events.append(["Encode", eid + "e", T, v, res, has_any])
            if res[0] == "ok":
                try:
                    x = concretize_value(v, subj.reg)
                    y = subj.decode_py(subj.encode_py(x))
                    back = ["ok", abstract_value(y, subj.reg)]
                except Exception as e:  # noqa: BLE001
                    back = ["err", ["other", type(e).__name__, str(e)[:120]]]
                events.append(["Round", eid + "r", T, v, back])
        for i, j in enumerate(inputs):
            eid = f"{gid}.j{i}"
            res, unchanged = subj.decode(j)
            events.append(["Decode", eid, T, j, res, unchanged])
    finally:
        subj.close()
    return events


def record(groups, procs=16):
    """groups: list of (T, [values], [inputs]) -> list of events"""
    work = [(i, T, vs, js) for i, (T, vs, js) in enumerate(groups)]
    ctx = mp.get_context("fork")
    events = []
    with ctx.Pool(procs) as pool:
        for evs in pool.imap(_record_group, work, chunksize=4):
            events.extend(evs)
    return events


def _record_decodes(args):
    T, items = args
    from harness.real import Subject
    try:
        subj = Subject(T)
    except Exception:  # noqa: BLE001
        return []
    out = []
    try:
        for j, eid in items:
            res, unchanged = subj.decode(j)
            out.append(["Decode", eid, T, j, res, unchanged])
    finally:
        subj.close()
    return out


def record_decodes(triples, procs=16):
    """triples: (T, j, event id) -> Decode events (grouped by type so classes are built once)"""
    groups: dict[str, list] = {}
    types = {}
    for T, j, eid in triples:
        k = jkey(T)
        types[k] = T
        groups.setdefault(k, []).append((j, eid))
    ctx = mp.get_context("fork")
    events = []
    with ctx.Pool(procs) as pool:
        for evs in pool.imap(_record_decodes, [(types[k], groups[k]) for k in groups], chunksize=4):
            events.extend(evs)
    return events


def validate(events, module="CoreTrace", wd=None, extra_env=None, timeout=1800, shards=8, per_job=1500):
    """returns (bad: {event id: [clauses]}, tlc results) ; unknown ctor pairs make events UNMODELLED"""
    wd = wd or tlc.scratch()
    # one TLC job per <= per_job events, each with the stdlib Ctor table of ITS OWN events only (the table is turned into
    # TLA+ functions once per run at a cost quadratic in its size)
    shards = max(1, min(shards, len(events) // 100 or 1), -(-len(events) // per_job))
    parts = [events[i::shards] for i in range(shards)]
    jobs = []
    for k, part in enumerate(parts):
        tab = CtorTable()
        for e in part:
            if e[0] == "Decode":
                tab.add_pair(e[2], e[3])
            elif e[0] == "Encode" and e[4][0] == "ok":
                tab.add_pair(e[2], e[4][1])       # round-trip events need the wire forms of their values
        ctor = os.path.join(wd, f"ctor_{module}_{k}.json")
        with open(ctor, "w") as fh:
            json.dump(tab.dump(), fh)
        path = os.path.join(wd, f"trace_{module}_{k}.ndjson")
        with open(path, "w") as fh:
            for e in part:
                fh.write(json.dumps(e) + "\n")
        jobs.append((module, wd, path, ctor, extra_env or {}, timeout))
    ctx = mp.get_context("fork")
    with ctx.Pool(min(16, len(jobs))) as pool:
        results = pool.map(_validate_one, jobs)
    bad = {}
    for r in results:
        for p in r.printed:
            if p and p[0] == "BAD":
                bad[p[1]] = (p[2], p[3] if len(p) > 3 else None)
    return bad, results


def _validate_one(job):
    module, wd, path, ctor, env, timeout = job
    e = {"TRACE_FILE": path, "CTOR_FILE": ctor}
    e.update(env)
    r = tlc.run_tlc(module, workdir=wd, workers=1, env=e, timeout=timeout)
    if "Accepted" in r.stdout and "violated" in r.stdout:
        raise tlc.MachineryError("trace not fully consumed: " + r.stdout[-1500:])
    return r
