"""./check <id> [--tier quick|thorough] [--replay path]   exit 0 held / 1 violation / 2 machinery failure"""
from __future__ import annotations

import argparse
import importlib
import os
import sys
import traceback

CHECKS = {
    "C01": ("harness.checks.core_props", "C01"),
    "C02": ("harness.checks.core_props", "C02"),
    "C03": ("harness.checks.core_props", "C03"),
    "C04": ("harness.checks.c04", "C04"),
    "C05": ("harness.checks.klass_props", "C05"),
    "C06": ("harness.checks.schema_props", "C06"),
    "C07": ("harness.checks.klass_props", "C07"),
    "C08": ("harness.checks.klass_props", "C08"),
    "C09": ("harness.checks.klass_props", "C09"),
    "C10": ("harness.checks.c10", "C10"),
    "C11": ("harness.checks.c11", "C11"),
    "C12": ("harness.checks.c12", "C12"),
    "C13": ("harness.checks.sys_props", "C13"),
    "C14": ("harness.checks.sys_props", "C14"),
    "C15": ("harness.checks.sys_props", "C15"),
    "C16": ("harness.checks.c16", "C16"),
    "C17": ("harness.checks.c17", "C17"),
    "C18": ("harness.checks.c18", "C18"),
    "C19": ("harness.checks.c19", "C19"),
    "C20": ("harness.checks.schema_props", "C20"),
}


def main() -> int:
    ap = argparse.ArgumentParser()
    ap.add_argument("prop")
    ap.add_argument("--tier", default=os.environ.get("VERIF_TIER", "quick"), choices=["quick", "thorough"])
    ap.add_argument("--replay")
    a = ap.parse_args()
    seed = int(os.environ.get("VERIF_SEED", "1"))
    from harness import tlc
    try:
        if a.replay:
            from harness import replay
            return replay.run(a.prop, a.replay)
        modname, arg = CHECKS[a.prop]
        mod = importlib.import_module(modname)
        return mod.run(arg, a.tier, seed)
    except tlc.MachineryError as e:
        print(f"MACHINERY-FAILURE property={a.prop}: {e}", file=sys.stderr)
        return 2
    except Exception:  # noqa: BLE001
        traceback.print_exc()
        print(f"MACHINERY-FAILURE property={a.prop}: unexpected exception in the harness", file=sys.stderr)
        return 2
    finally:
        tlc.cleanup()


if __name__ == "__main__":
    sys.exit(main())
