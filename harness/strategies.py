"""Marker serialization strategies / callables for C10 and dialect building (translation only).

strategy terms:
  ["pass_through"]
  ["mark", id, mode]     mode = "both" | "ser" | "deser"
      SerializationStrategy object (mode both) or a dict with only one direction;
      serialize(v)   -> "S<id>"      deserialize(j) -> MarkedStr("D<id>")   (the marker names the winner)
"""
from __future__ import annotations

import collections

NOCOPY_TYPES = {"list": list, "dict": dict, "set": set, "deque": collections.deque, "OrderedDict": collections.OrderedDict,
                "frozenset": frozenset, "tuple": tuple}


def make_callable(st, direction, reg):
    ident = st[1]
    if direction == "ser":
        return lambda v, _i=ident: f"S{_i}"
    return lambda v, _i=ident: f"D{_i}"


def make_strategy(st, reg):
    from mashumaro.helper import pass_through
    from mashumaro.types import SerializationStrategy
    if st[0] == "pass_through":
        return pass_through
    if st[0] == "mark":
        ident, mode = st[1], st[2]
        if mode == "both":
            class Marker(SerializationStrategy):
                def serialize(self, value, _i=ident):
                    return f"S{_i}"

                def deserialize(self, value, _i=ident):
                    return f"D{_i}"
            return Marker()
        if mode == "ser":
            return {"serialize": make_callable(st, "ser", reg)}
        if mode == "deser":
            return {"deserialize": make_callable(st, "deser", reg)}
    raise ValueError(st)
