"""Marker serialization strategies / callables for C10 and dialect building (translation only).

strategy terms:
  ["pass_through"]
  ["mark", id, mode]     mode = "both" | "ser" | "deser"
      SerializationStrategy object (mode both) or a dict with only one direction;
      serialize(v)   -> "S<id>"      deserialize(j) -> MarkedStr("D<id>")   (the marker names the winner)
  ["shift", id, "both", k]   a lossless strategy for exact ints: serialize v + k, deserialize j - k (ValueError unless type(j) is int)
"""

import collections

NOCOPY_TYPES = {"list": list, "dict": dict, "set": set, "deque": collections.deque, "OrderedDict": collections.OrderedDict,
                "frozenset": frozenset, "tuple": tuple}


def _ser_marker(ident):
    import datetime

    def ser(v, _i=ident):
        # markers are registered for date / List[date] / list keys: anything else is not theirs (a union tries the next member)
        if not isinstance(v, (datetime.date, list)):
            raise TypeError("marker strategy: not a value of the registered type")
        return f"S{_i}"
    return ser


def _deser_marker(ident):
    def deser(j, _i=ident):
        # null is never a marker's input: Optional[X] handles it before X, and Union[.., X, .., None] hands it to the None member
        if j is None:
            raise ValueError("marker strategy: null is not a value of the registered type")
        return f"D{_i}"
    return deser


def make_callable(st, direction, reg):
    ident = st[1]
    if direction == "ser":
        return _ser_marker(ident)
    return _deser_marker(ident)


def make_strategy(st, reg):
    from mashumaro.helper import pass_through
    from mashumaro.types import SerializationStrategy
    if st[0] == "pass_through":
        return pass_through
    if st[0] == "shift":
        k = st[3]

        class Shift(SerializationStrategy):
            def serialize(self, value, _k=k):
                if type(value) is not int:
                    raise TypeError("shift strategy: exact int expected")      # (a union tries the next member)
                return value + _k

            def deserialize(self, value, _k=k):
                if type(value) is not int:
                    raise ValueError("shift strategy: exact int expected")
                return value - _k
        return Shift()
    if st[0] == "typed":
        ident, mode = st[1], st[2]

        def ser_typed(value) -> int:        # the return annotation is what build_json_schema describes for the field
            return 7
        if mode == "both":
            class Typed(SerializationStrategy):
                def serialize(self, value) -> int:
                    return 7

                def deserialize(self, value, _i=ident):
                    return _deser_marker(_i)(value)
            return Typed()
        if mode == "ser":
            return {"serialize": ser_typed}
        return {"deserialize": _deser_marker(ident)}
    if st[0] == "mark":
        ident, mode = st[1], st[2]
        if mode == "both":
            class Marker(SerializationStrategy):
                def serialize(self, value, _i=ident):
                    return _ser_marker(_i)(value)

                def deserialize(self, value, _i=ident):
                    return _deser_marker(_i)(value)
            return Marker()
        if mode == "ser":
            return {"serialize": make_callable(st, "ser", reg)}
        if mode == "deser":
            return {"deserialize": make_callable(st, "deser", reg)}
    raise ValueError(st)
