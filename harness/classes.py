"""Builds real (mashumaro) dataclasses from <<"dc", name, fields, cfg>> type terms.

Translation only; no expectations.  Classes are created the way user code creates them:
type(name, bases, namespace) (which triggers DataClassDictMixin.__init_subclass__, i.e.
compilation at class-definition time) followed by dataclasses.dataclass(cls).
"""
from __future__ import annotations

import dataclasses
import typing
from typing import Any

from harness.terms import (BridgeError, Registry, concretize_type, concretize_value, get_opt)

FLAG_NAMES = {
    "omit_none_flag": "TO_DICT_ADD_OMIT_NONE_FLAG",
    "by_alias_flag": "TO_DICT_ADD_BY_ALIAS_FLAG",
    "dialect_flag": "ADD_DIALECT_SUPPORT",
    "context_flag": "ADD_SERIALIZATION_CONTEXT",
}


def mixin_base(kind: str):
    if kind == "plain":
        return None
    if kind == "dict":
        from mashumaro import DataClassDictMixin
        return DataClassDictMixin
    if kind == "json":
        from mashumaro.mixins.json import DataClassJSONMixin
        return DataClassJSONMixin
    if kind == "orjson":
        from mashumaro.mixins.orjson import DataClassORJSONMixin
        return DataClassORJSONMixin
    if kind == "msgpack":
        from mashumaro.mixins.msgpack import DataClassMessagePackMixin
        return DataClassMessagePackMixin
    if kind == "yaml":
        from mashumaro.mixins.yaml import DataClassYAMLMixin
        return DataClassYAMLMixin
    if kind == "toml":
        from mashumaro.mixins.toml import DataClassTOMLMixin
        return DataClassTOMLMixin
    raise BridgeError(f"unknown mixin kind {kind}")


ORIGINS = {"list": list, "dict": dict, "set": set, "frozenset": frozenset, "tuple": tuple}


def strategy_key(tt, reg):
    """key of a serialization_strategy table: an exact type, a NewType, or the generic origin"""
    if tt[0] == "origin":
        return ORIGINS[tt[1]]
    return concretize_type(tt, reg)


def build_dialect(dterm, reg: Registry, name: str = "VDialect"):
    """dialect term = option list: ["omit_none",b] ["omit_default",b] ["serialize_by_alias",b]
    ["namedtuple_as_dict",b] ["no_copy",[tags]] ["strategy",[[typeterm, strat]...]]"""
    from mashumaro.dialect import Dialect
    from harness.strategies import make_strategy, NOCOPY_TYPES

    ns: dict[str, Any] = {}
    for o in dterm:
        k = o[0]
        if k in ("omit_none", "omit_default", "serialize_by_alias", "namedtuple_as_dict"):
            ns[k] = bool(o[1])
        elif k == "no_copy":
            ns["no_copy_collections"] = tuple(NOCOPY_TYPES[t] for t in o[1])
        elif k == "strategy":
            ns["serialization_strategy"] = {
                strategy_key(tt, reg): make_strategy(st, reg) for tt, st in o[1]
            }
        elif k == "name":
            name = o[1]
        else:
            raise BridgeError(f"unknown dialect option {k}")
    return type(name, (Dialect,), ns)


def build_dataclass(term, reg: Registry):
    _, name, fields, cfg = term[:4]
    from mashumaro.config import BaseConfig
    from mashumaro.helper import field_options
    from mashumaro.types import Alias

    kind = get_opt(cfg, "mixin", "dict")
    base = mixin_base(kind)
    bases_terms = get_opt(cfg, "bases", [])
    bases = tuple(concretize_type(b, reg) for b in bases_terms)
    own_fields = fields
    if bases_terms:
        inherited = {f[0] for b in bases_terms for f in b[2]}
        redecl = set(get_opt(cfg, "redeclared", []))
        own_fields = [f for f in fields if f[0] not in inherited or f[0] in redecl]
    if not bases:
        bases = (base,) if base is not None else ()
    gparams = get_opt(cfg, "generic_params")
    if gparams:
        bases = bases + (typing.Generic[tuple(concretize_type(["tvar", p], reg) for p in gparams)],)

    # "pyname": the Python __name__ / __qualname__ of the class when it must differ from the (unique) term name -- two classes
    # with ONE qualified short name living in different modules of the universe
    pyname = get_opt(cfg, "pyname") or reg._pyname(name)
    ann: dict[str, Any] = {}
    dmod = get_opt(cfg, "module")
    ns: dict[str, Any] = {"__module__": reg.submodule(dmod).__name__ if dmod else reg.modname, "__qualname__": pyname}
    for f in own_fields:
        fname, ftype, dflt, fopts = f[0], f[1], f[2], f[3] if len(f) > 3 else []
        if get_opt(cfg, "pep585"):
            # this class spells its containers list[X] / dict[K, V] / tuple[A, B] (PEP 585) -- same types, another spelling
            old585, reg.pep585 = getattr(reg, "pep585", False), True
            try:
                t = concretize_type(ftype, reg)
            finally:
                reg.pep585 = old585
        else:
            t = concretize_type(ftype, reg)
        aalias = get_opt(fopts, "aalias")
        if aalias is not None:
            t = typing.Annotated[t, Alias(aalias)]
        ann[fname] = t
        kwargs: dict[str, Any] = {}
        meta: dict[str, Any] = {}
        if get_opt(fopts, "alias") is not None:
            meta["alias"] = get_opt(fopts, "alias")
        if get_opt(fopts, "ser") is not None:
            meta["serialize"] = get_opt(fopts, "ser")
        if get_opt(fopts, "deser") is not None:
            meta["deserialize"] = get_opt(fopts, "deser")
        if get_opt(fopts, "strategy") is not None:
            from harness.strategies import make_strategy
            st = make_strategy(get_opt(fopts, "strategy"), reg)
            meta["serialization_strategy"] = st
        if get_opt(fopts, "fser") is not None:
            from harness.strategies import make_callable
            meta["serialize"] = make_callable(get_opt(fopts, "fser"), "ser", reg)
        if get_opt(fopts, "fdeser") is not None:
            from harness.strategies import make_callable
            meta["deserialize"] = make_callable(get_opt(fopts, "fdeser"), "deser", reg)
        if meta:
            kwargs["metadata"] = field_options(
                serialize=meta.get("serialize"), deserialize=meta.get("deserialize"),
                serialization_strategy=meta.get("serialization_strategy"), alias=meta.get("alias"))
        if get_opt(fopts, "init") is False:
            kwargs["init"] = False
        if get_opt(fopts, "kw_only"):
            kwargs["kw_only"] = True
        if dflt[0] == "val":
            dv = concretize_value(dflt[1], reg)
            if kwargs or isinstance(dv, (list, dict, set)):
                if isinstance(dv, (list, dict, set)):
                    raise BridgeError("mutable default must be a factory")
                kwargs["default"] = dv
                ns[fname] = dataclasses.field(**kwargs)
            else:
                ns[fname] = dv
        elif dflt[0] == "fac":
            vt = dflt[1]
            kwargs["default_factory"] = (lambda vt=vt: concretize_value(vt, reg))
            ns[fname] = dataclasses.field(**kwargs)
        elif kwargs:
            ns[fname] = dataclasses.field(**kwargs)
    extras = get_opt(cfg, "extras", [])
    if "cv" in extras:
        ann["cv"] = typing.ClassVar[int]
        ns["cv"] = 4
    if "iv" in extras:
        ann["iv"] = dataclasses.InitVar[int]
        ns["iv"] = 5
    if extras:
        def __post_init__(self, iv=5):
            # members that are not fields must never be fed from the input
            if iv != 5 or type(self).__dict__.get("cv", 4) != 4 or "cv" in vars(self):
                raise RuntimeError(f"non-field member read from the input: iv={iv!r} cv={getattr(self, 'cv', None)!r}")
        ns["__post_init__"] = __post_init__
    ns["__annotations__"] = ann

    # ---- Config
    cns: dict[str, Any] = {}
    for o in cfg:
        k = o[0]
        if k in ("omit_none", "omit_default", "serialize_by_alias", "sort_keys", "forbid_extra_keys",
                 "allow_deserialization_not_by_alias", "namedtuple_as_dict", "allow_postponed_evaluation"):
            cns[k] = bool(o[1])
        elif k == "lazy":
            cns["lazy_compilation"] = bool(o[1])
        elif k == "aliases":
            cns["aliases"] = {a: b for a, b in o[1]}
        elif k == "flags":
            cns["code_generation_options"] = [FLAG_NAMES[x] for x in o[1]]
        elif k == "dialect":
            cns["dialect"] = build_dialect(o[1], reg)
        elif k == "cfg_strategy":
            from harness.strategies import make_strategy
            cns["serialization_strategy"] = {
                strategy_key(tt, reg): make_strategy(st, reg) for tt, st in o[1]
            }
        elif k == "discriminator":
            from harness.terms import make_discriminator
            cns["discriminator"] = make_discriminator(o[1], reg)
        elif k == "classvars":
            for cv, val in o[1]:
                ns[cv] = concretize_value(val, reg)
        elif k in ("mixin", "bases", "redeclared", "sorted_idx", "discr_field", "hooks", "slots", "frozen", "no_config", "generic_params", "module", "extras", "pyname", "pep585"):
            pass
        else:
            raise BridgeError(f"unknown cfg option {k}")
    if cns and not get_opt(cfg, "no_config", False):
        ns["Config"] = type("Config", (BaseConfig,), cns)

    hooks = get_opt(cfg, "hooks", [])
    if hooks:
        from harness.hooks import add_hooks
        add_hooks(ns, name, hooks, reg)

    if gparams or any(not isinstance(b, type) for b in bases):      # a base such as Box[int] needs MRO entry resolution
        import types as _types
        cls = _types.new_class(pyname, bases, {}, lambda n: n.update(ns))
    else:
        cls = type(pyname, bases, ns)
    reg._register(cls, name, term, module=dmod)     # register BEFORE dataclass() so self-references resolve
    dc_kwargs = {}
    if get_opt(cfg, "frozen", False):
        dc_kwargs["frozen"] = True
    if get_opt(cfg, "slots", False):
        dc_kwargs["slots"] = True
    made = dataclasses.dataclass(**dc_kwargs)(cls)
    if made is not cls:
        # slots=True: dataclass() returns a NEW class object (the mixin's __init_subclass__ ran for it too)
        reg._register(made, name, term, module=dmod)
    return made
