"""./check <id> --replay <file>: re-execute one recorded violation against the current tree."""
from __future__ import annotations

import json

from harness.terms import canon, terms_equal, terms_pyeq, wire_match


def still_fails(rec) -> tuple[bool, object]:
    from harness.real import Subject
    from harness.terms import abstract_value, concretize_value
    clause = rec["clause"]
    try:
        subj = Subject(rec["T"])
    except Exception as e:  # noqa: BLE001
        return True, ["exc", type(e).__name__, str(e)[:200]]
    try:
        exp = rec.get("expected")
        if clause in ("wire", "encode-raises", "json-dumps", "not-basic"):
            act = subj.encode(rec["input"])
            if act[0] != "ok":
                return True, act
            if clause == "json-dumps":
                try:
                    json.dumps(subj.encode_py(concretize_value(rec["input"], subj.reg)))
                    return False, act
                except Exception as e:  # noqa: BLE001
                    return True, ["exc", type(e).__name__]
            return (not wire_match(canon(exp), act[1])), act
        if clause == "roundtrip":
            try:
                x = concretize_value(rec["input"], subj.reg)
                y = subj.decode_py(subj.encode_py(x))
                act = ["ok", abstract_value(y, subj.reg)]
            except Exception as e:  # noqa: BLE001
                return True, ["exc", type(e).__name__, str(e)[:200]]
            return (not terms_pyeq(act[1], rec["input"])), act
        if clause in ("decode", "decode-accepts", "decode-rejects", "ill-typed", "error-kind", "error-detail", "input-mutated",
                      "silent-none"):
            res, unchanged = subj.decode(rec["input"])
            if clause == "input-mutated":
                return (not unchanged), res
            if exp and exp[0] == "ok":
                return (res[0] != "ok" or not terms_equal(res[1], exp[1])), res
            if exp and exp[0] == "err":
                if res[0] == "ok":
                    return True, res
                if clause in ("error-kind", "error-detail"):
                    return (not terms_equal(res[1], exp[1])), res
                return False, res
            return True, res
        if clause == "build":
            return False, "class builds"
    finally:
        subj.close()
    return True, "clause not replayable by the generic replayer"


def run(prop, path) -> int:
    with open(path) as fh:
        rec = json.load(fh)
    if "replay_module" in rec:
        import importlib
        return importlib.import_module(rec["replay_module"]).replay(rec, path)
    fails, act = still_fails(rec)
    print("recorded clause:", rec["clause"])
    print("observed now   :", json.dumps(act)[:600])
    if fails:
        print(f"VIOLATION property={rec.get('property', prop)} replay={path}")
        return 1
    print("no longer reproduces on the current tree")
    return 0
