"""Shared engine for C01 / C02 / C03 (and the value-level part of C05 / C11):
TLC enumerates (type, value) and (type, foreign input) vectors with their expected outcome
(spec/mc/MC_Core.tla), this module replays them against the real library (channel R),
records random deeper executions and has TLC judge them (channel V, spec/trace/CoreTrace.tla)."""
from __future__ import annotations

import hashlib
import json
import multiprocessing as mp
import os
import random

from harness import tlc
from harness.ctor import CtorTable, subterms
from harness.terms import get_opt, canon, jkey, terms_equal, terms_pyeq, wire_match

ALL_KINDS = ["int", "float", "bool", "str", "date", "datetime", "time", "timedelta", "bytes", "bytearray",
             "uuid", "decimal", "fraction", "ipv4addr", "ipv6addr", "ipv4net", "ipv6net", "ipv4if", "ipv6if",
             "pureposixpath", "purewindowspath", "posixpath", "pattern"]


def cfg_text(module_cfg: str, **consts) -> str:
    with open(os.path.join(tlc.SPEC, "mc", module_cfg)) as fh:
        s = fh.read()
    import re
    for k, v in consts.items():
        val = {True: "TRUE", False: "FALSE"}.get(v, v) if isinstance(v, bool) else v
        s, n = re.subn(rf"(?m)^(\s*{k}\s*=\s*).*$", rf"\g<1>{val}", s)
        if n != 1:
            raise tlc.MachineryError(f"constant {k} not found in {module_cfg}")
    return s


def norm_err(r):
    """error terms carry key SETS (ExtraKeysError): order them canonically"""
    if isinstance(r, list) and len(r) == 2 and r[0] == "err" and isinstance(r[1], list) and r[1] and r[1][0] == "Extra":
        return ["err", ["Extra", sorted(r[1][1], key=jkey), r[1][2]]]
    return r


def listify(w):
    """bag nodes (sets serialised in unspecified order) -> lists, for feeding wire terms back"""
    if isinstance(w, list) and w and w[0] == "bag":
        return ["list", [listify(e) for e in w[1]]]
    if isinstance(w, list):
        return [listify(e) for e in w]
    return w


def build_ctor_table(wd: str, extra_inputs=()) -> tuple[str, object]:
    """phase 1: leaf wire forms + the foreign-input universe -> stdlib table"""
    r = tlc.run_tlc("MC_Core", workdir=wd, workers=4,
                    cfg_text=cfg_text("MC_Core.cfg", Depth=0, Emit=True, Foreign=True), timeout=300)
    inputs: dict[str, list] = {}
    for rec in r.printed:
        if rec[0] == "vec":
            subterms(listify(rec[3]), inputs)
        elif rec[0] == "inp":
            subterms(rec[2], inputs)
    for j in extra_inputs:
        subterms(j, inputs)
    tab = CtorTable()
    tab.add(ALL_KINDS, inputs.values())
    path = os.path.join(wd, "ctor.json")
    with open(path, "w") as fh:
        json.dump(tab.dump(), fh)
    return path, r


# ------------------------------------------------------------------ replay worker (runs in a subprocess)
def _replay_group(args):
    T, recs = args
    from harness.real import Subject
    import json as _json
    out = {"n": 0, "mism": [], "unknown": 0, "nontrivial": [], "bridge_errors": []}
    try:
        subj = Subject(T)
    except Exception as e:  # noqa: BLE001 -- class creation failed: a violation only if the spec says buildable
        out["mism"].append({"clause": "build", "T": T, "actual": ["exc", type(e).__name__, str(e)[:200]]})
        return out
    has_any = '"any"' in _json.dumps(T)
    _mark, _prev_call = 0, []
    try:
        for rec in recs:
            out["n"] += 1
            for m_ in out["mism"][_mark:]:
                m_.setdefault("call", _prev_call)       # every mismatch record carries the call options of its vector
            _mark = len(out["mism"])
            _prev_call = rec[5] if len(rec) > 5 and isinstance(rec[5], list) else []
            if rec[0] == "vec":
                _, _T, v, wire_exp, back_exp = rec[:5]
                kw = {}
                if len(rec) > 5:
                    for o in rec[5]:
                        if o[0] == "dialect":
                            from harness.classes import build_dialect
                            kw["dialect"] = subj.dialect_for(o[1])
                        else:
                            kw[o[0]] = o[1]
                try:
                    x = __import__("harness.terms", fromlist=["x"]).concretize_value(v, subj.reg)
                    w_py = subj.encode_py(x, **kw)
                except Exception as e:  # noqa: BLE001
                    out["mism"].append({"clause": "encode-raises", "T": T, "input": v,
                                        "expected": wire_exp, "actual": ["exc", type(e).__name__, str(e)[:200]]})
                    if not kw and back_exp[0] == "ok" and '"bag"' not in _json.dumps(wire_exp):
                        jdoc = listify(wire_exp)
                        dres = norm_err(subj.decode(jdoc)[0])
                        if dres[0] != "ok":
                            out["mism"].append({"clause": "decode-rejects", "T": T, "input": jdoc, "expected": back_exp, "actual": dres})
                        elif not terms_equal(dres[1], back_exp[1]):
                            out["mism"].append({"clause": "decode", "T": T, "input": jdoc, "expected": back_exp, "actual": dres})
                    continue
                from harness.terms import abstract_value
                w_act = abstract_value(w_py, subj.reg)
                if not wire_match(canon(wire_exp), w_act):
                    out["mism"].append({"clause": "wire", "T": T, "input": v, "expected": wire_exp, "actual": w_act,
                                        "call": rec[5] if len(rec) > 5 else []})
                    # the real serializer did not produce the documented form: the deserializer is then judged on the DOCUMENTED
                    # wire form itself (otherwise a packer and an unpacker that are wrong in the same way hide each other)
                    if not kw and back_exp[0] == "ok" and '"bag"' not in _json.dumps(wire_exp):
                        jdoc = listify(wire_exp)
                        dres, _unch = subj.decode(jdoc)
                        dres = norm_err(dres)
                        if dres[0] != "ok":
                            out["mism"].append({"clause": "decode-rejects", "T": T, "input": jdoc, "expected": back_exp, "actual": dres})
                        elif not terms_equal(dres[1], back_exp[1]):
                            out["mism"].append({"clause": "decode", "T": T, "input": jdoc, "expected": back_exp, "actual": dres})
                if not has_any:
                    try:
                        _json.dumps(w_py)
                    except Exception as e:  # noqa: BLE001
                        out["mism"].append({"clause": "json-dumps", "T": T, "input": v, "expected": "json.dumps accepts",
                                            "actual": ["exc", type(e).__name__, str(e)[:200]]})
                if kw:
                    out["nontrivial"].append(hashlib.sha1(jkey([T, v, rec[5]]).encode()).hexdigest())
                    continue            # option-projected output is not meant to be read back
                # real round trip on the real wire object
                try:
                    y = subj.decode_py(w_py)
                    back_act = ["ok", abstract_value(y, subj.reg)]
                except Exception as e:  # noqa: BLE001
                    back_act = ["exc", type(e).__name__, str(e)[:200]]
                if back_act[0] != "ok" or not terms_pyeq(back_act[1], v):
                    out["mism"].append({"clause": "roundtrip", "T": T, "input": v, "expected": ["ok", v], "actual": back_act})
                if back_exp[0] == "unknown":
                    out["unknown"] += 1
                elif '"bag"' in _json.dumps(wire_exp) and back_exp[0] == "ok" and not terms_pyeq(back_exp[1], v):
                    pass    # a set-derived list (unspecified order) is read back by an order-preserving member: excluded (members share a wire form)
                elif back_act[0] == "ok" and back_exp[0] == "ok" and not terms_equal(back_act[1], back_exp[1]):
                    out["mism"].append({"clause": "decode", "T": T, "input": listify(wire_exp), "expected": back_exp, "actual": back_act})
                if len(_json.dumps(v)) > 12:
                    out["nontrivial"].append(hashlib.sha1(jkey([T, v]).encode()).hexdigest())
            else:
                _, _T, j, dec_exp = rec[:4]
                dec_exp = norm_err(dec_exp)
                dkw = {}
                if len(rec) > 5:
                    for o in rec[5]:
                        if o[0] == "dialect":
                            dkw["dialect"] = subj.dialect_for(o[1])
                res, unchanged = subj.decode(j, **dkw)
                res = norm_err(res)
                if not unchanged:
                    out["mism"].append({"clause": "input-mutated", "T": T, "input": j, "expected": "input unchanged", "actual": res})
                if dec_exp[0] == "unknown":
                    out["unknown"] += 1
                    continue
                if dec_exp[0] == "ok":
                    if res[0] != "ok":
                        out["mism"].append({"clause": "decode-rejects", "T": T, "input": j, "expected": dec_exp, "actual": res})
                    elif not terms_equal(res[1], dec_exp[1]):
                        out["mism"].append({"clause": "decode", "T": T, "input": j, "expected": dec_exp, "actual": res})
                else:
                    if res[0] == "ok":
                        out["mism"].append({"clause": "decode-accepts", "T": T, "input": j, "expected": dec_exp, "actual": res})
                    elif subj.mixin and not terms_equal(res[1][:1], dec_exp[1][:1] if isinstance(dec_exp[1], list) else []):
                        out["mism"].append({"clause": "error-kind", "T": T, "input": j, "expected": dec_exp, "actual": res})
                    elif subj.mixin and isinstance(dec_exp[1], list) and not terms_equal(res[1], dec_exp[1]):
                        out["mism"].append({"clause": "error-detail", "T": T, "input": j, "expected": dec_exp, "actual": res})
                out["nontrivial"].append(hashlib.sha1(jkey([T, j]).encode()).hexdigest())
                # a format-mixin class is also entered through from_<format>() with the same document
                fkind = get_opt(T[3], "mixin") if T[0] == "dc" and len(T) > 3 else None
                if fkind in ("orjson", "msgpack", "json") and not dkw and dec_exp[0] == "ok":
                    from harness.terms import abstract_value as _av, concretize_value as _cv2
                    try:
                        d = _cv2(j, subj.reg)
                        if fkind == "msgpack":
                            import msgpack as _mp
                            y = subj.ann.from_msgpack(_mp.packb(d, use_bin_type=True))
                        else:
                            y = subj.ann.from_json(_json.dumps(d))
                        fres = ["ok", _av(y, subj.reg)]
                    except (TypeError, ValueError) as e:
                        fres = None if type(e).__module__ in ("msgpack.exceptions", "builtins") and "serializ" in str(e) else norm_err(__import__("harness.real", fromlist=["x"]).abstract_exception(e, subj.reg))
                    except Exception as e:  # noqa: BLE001
                        fres = norm_err(__import__("harness.real", fromlist=["x"]).abstract_exception(e, subj.reg))
                    if fres is not None and (fres[0] != "ok" or not terms_equal(fres[1], dec_exp[1])):
                        out["mism"].append({"clause": "decode-format", "T": T, "input": j, "expected": dec_exp, "actual": fres, "format": fkind})
                fresh = rec[4] if len(rec) > 4 else []
                if fresh and res[0] == "ok":
                    import dataclasses as _dc
                    from harness.terms import concretize_value as _cv
                    o1 = subj.decode_py(_cv(j, subj.reg))
                    o2 = subj.decode_py(_cv(j, subj.reg))
                    names = [f.name for f in _dc.fields(subj.ann)]
                    for i in fresh:
                        a, b = getattr(o1, names[i - 1]), getattr(o2, names[i - 1])
                        if a is b:
                            out["mism"].append({"clause": "shared-factory", "T": T, "input": j, "expected": "fresh factory result per instance",
                                                "actual": ["shared", names[i - 1]]})
    finally:
        for m_ in out["mism"][_mark:]:
            m_.setdefault("call", _prev_call)
        subj.close()
    return out


def class_names(printed):
    """names of every dataclass term occurring in the type position of the emitted records"""
    import re
    names = set()
    for rec in printed:
        if len(rec) > 1 and isinstance(rec[1], list):
            names.update(re.findall(r'\["dc", "([^"]+)"', json.dumps(rec[1])))
    return names


def assert_families(printed, expected, label, rep=None):
    """vacuity guard: every family a model announces must actually be explored -- a family is identified by a class name that
    only it uses.  A missing one is a machinery failure (a filter / constraint silently removed it), never a verdict."""
    seen = class_names(printed)
    missing = sorted(set(expected) - seen)
    if rep is not None:
        rep.selftests.setdefault("families_explored", {})[label] = sorted(set(expected) & seen)
    if missing:
        raise tlc.MachineryError(f"{label}: announced families never explored (vacuous): {missing}")


def replay(printed, procs=16):
    groups: dict[str, list] = {}
    types: dict[str, list] = {}
    for rec in printed:
        k = jkey(rec[1])
        groups.setdefault(k, []).append(rec)
        types[k] = rec[1]
    work = [(types[k], groups[k]) for k in groups]
    agg = {"n": 0, "mism": [], "unknown": 0, "nontrivial": set(), "types": len(work)}
    ctx = mp.get_context("fork")
    with ctx.Pool(procs) as pool:
        for out in pool.imap_unordered(_replay_group, work, chunksize=8):
            agg["n"] += out["n"]
            agg["mism"].extend(out["mism"])
            agg["unknown"] += out["unknown"]
            agg["nontrivial"].update(out["nontrivial"])
    return agg


def run_mc_with_table(module, wd, pairs, cfg=None, rep=None, label="", workers=16, timeout=1800):
    """single-phase run with a Ctor table built for the given (kinds, inputs) pairs"""
    tab = CtorTable()
    for kinds, inputs in pairs:
        tab.add(kinds, inputs)
    path = os.path.join(wd, f"ctor_{module}.json")
    with open(path, "w") as fh:
        json.dump(tab.dump(), fh)
    r = tlc.run_tlc(module, workdir=wd, workers=workers, timeout=timeout, cfg_text=cfg, env={"CTOR_FILE": path})
    if rep is not None:
        rep.add_tlc(r, label)
    return r


def run_mc(module, wd, cfg=None, rep=None, label="", workers=16, timeout=1800, env=None):
    """two-phase run of an MC module: first pass collects the inputs that reach leaf constructors,
    the stdlib Ctor table is built for them, second pass is the real one"""
    r1 = tlc.run_tlc(module, workdir=wd, workers=workers, timeout=timeout, cfg_text=cfg, env=env)
    tab = CtorTable()
    for rec in r1.printed:
        if rec[0] == "vec":
            tab.add_pair(rec[1], listify(rec[3]))
        elif rec[0] == "inp":
            tab.add_pair(rec[1], rec[2])
    if not tab.rows:
        if rep is not None:
            rep.add_tlc(r1, label)
        return r1
    path = os.path.join(wd, f"ctor_{module}.json")
    with open(path, "w") as fh:
        json.dump(tab.dump(), fh)
    e = dict(env or {})
    e["CTOR_FILE"] = path
    r2 = tlc.run_tlc(module, workdir=wd, workers=workers, timeout=timeout, cfg_text=cfg, env=e)
    if rep is not None:
        rep.add_tlc(r2, label)
    return r2
